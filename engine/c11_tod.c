/* c11_tod.c -- C11: time-of-day and epoch arithmetic is exact across midnight.
 *
 * Model: instant = reference day ordinal x 86400 + second of the day (Unix seconds
 * through the 1970-01-01 anchor); the 86,400 seconds of a day are walked as a
 * successor machine on every boundary day.
 *
 * Sections (slices in this order):
 *   ADD    boundary days x every second x increments x {s,m,h} x held representation:
 *          dt_dtadd with the duration parsed as dadd parses it (dt_io_strpdtdur); the
 *          printed result, decoded by a boring decoder, must be instant + n*unit
 *   SEAM   every day of 1601..4095 x {00:00:00, 23:59:59} x {+-1 s, +-86400 s}
 *   MIL    T24:00:00 on every day: %s, +1 s, -1 s and the difference to the next
 *          day's T00:00:00 must be those of 00:00:00 of the following day
 *   EPOCH  @N and %s in, %s out: every day boundary -1/0/+1 s and every second of the
 *          boundary days
 *   DIFF   ddiff -f %S (ddiff.c's own functions, included) on all ordered pairs of
 *          40 seam days x 7 times per representation, and every day against the next
 *   BIND   the dadd / dconv / ddiff binaries of the same build on whole days of
 *          seconds from stdin; byte-compared with the library-level observation */
#include "impl.h"
#include "explore.h"
#include "refcal.h"
#include "dt-io.h"
#include "c11_decode.h"
#include <sys/wait.h>

#define main ddiff_main
#include "ddiff.c"
#undef main

#define RD_OF_INST(u)	((int)(((u) + 134774LL * 86400) / 86400))
#define INST_MIN	((int64_t)(0 - 134774) * 86400)			/* 1601-01-01T00:00:00 */
#define INST_MAX	((int64_t)(RC_NDAYS - 134774) * 86400 - 1)	/* 4095-12-31T23:59:59 */

/* ---- durations ---- */
static const long long incr_abs[] = {1, 59, 60, 61, 3599, 3600, 3601, 86399, 86400, 86401, 172800, 604800, 31536000, 2147483647LL};
#define NINCR	((int)(sizeof(incr_abs) / sizeof(*incr_abs)))
static const char unit_ch[3] = {'s', 'm', 'h'};
static const int unit_secs[3] = {1, 60, 3600};
struct dur_s {
	char text[24];
	int unit, neg;
	long long n;		/* signed count */
	int64_t secs;		/* signed seconds */
	struct dt_dtdur_s dur;
	int ok;
};
#define NDUR	(NINCR * 2 * 3)
/* the carry family: for every N in -10..+10 the counts N days +- {0, 1 s, 1 h, 12 h, 86399 s}, spelt in s and,
 * where exact, in m and h: every value -9..+9 of the day carry (a 4-bit signed slot in the time) is produced
 * from early, noon and late times of day */
#define MAXCDUR	700
static struct dur_s durs[NDUR + MAXCDUR];
static int ncdur;

static void
mk_durs(void)
{
	int k = 0;
	for (int u = 0; u < 3; u++) {
		for (int i = 0; i < NINCR; i++) {
			for (int neg = 0; neg < 2; neg++, k++) {
				struct dur_s *d = durs + k;
				struct __strpdtdur_st_s st = {0};
				snprintf(d->text, sizeof(d->text), "%c%lld%c", neg ? '-' : '+', incr_abs[i], unit_ch[u]);
				d->unit = u;
				d->neg = neg;
				d->n = neg ? -incr_abs[i] : incr_abs[i];
				d->secs = (int64_t)d->n * unit_secs[u];
				/* exactly what dadd does with a duration argument */
				d->ok = dt_io_strpdtdur(&st, d->text) >= 0 && st.ndurs == 1;
				if (d->ok) {
					d->dur = st.durs[0];
				}
				__strpdtdur_free(&st);
			}
		}
	}
	/* carry family */
	{
		static const int offs[] = {0, 1, -1, 3600, -3600, 43200, -43200, 86399, -86399};
		int64_t seen[21 * 9];
		int nseen = 0;
		for (int n = -10; n <= 10; n++) {
			for (int o = 0; o < 9; o++) {
				int64_t secs = (int64_t)n * 86400 + offs[o];
				int dup = secs == 0;
				for (int i = 0; i < nseen; i++) {
					dup |= seen[i] == secs;
				}
				if (dup) {
					continue;
				}
				seen[nseen++] = secs;
				for (int u = 0; u < 3; u++) {
					struct dur_s *d = durs + NDUR + ncdur;
					struct __strpdtdur_st_s st = {0};
					if (secs % unit_secs[u] || ncdur >= MAXCDUR) {
						continue;
					}
					d->unit = u;
					d->neg = secs < 0;
					d->n = secs / unit_secs[u];
					d->secs = secs;
					snprintf(d->text, sizeof(d->text), "%c%lld%c", d->neg ? '-' : '+', llabs(d->n), unit_ch[u]);
					d->ok = dt_io_strpdtdur(&st, d->text) >= 0 && st.ndurs == 1;
					if (d->ok) {
						d->dur = st.durs[0];
					}
					__strpdtdur_free(&st);
					ncdur++;
				}
			}
		}
	}
}

/* ---- boundary days ---- */
static const int bdays[][3] = {
	/* quick: the first 6 */
	{1601, 1, 1}, {1969, 12, 31}, {2012, 2, 29}, {2012, 12, 31}, {2038, 1, 19}, {4095, 12, 31},
	{1601, 1, 2}, {1899, 12, 31}, {1900, 2, 28}, {1900, 3, 1}, {1970, 1, 1}, {1999, 12, 31}, {2000, 2, 29}, {2008, 12, 28},
	{2008, 12, 29}, {2011, 1, 2}, {2012, 2, 28}, {2012, 3, 1}, {2012, 3, 31}, {2012, 6, 30}, {2013, 1, 1}, {2099, 12, 31},
	{2100, 2, 28}, {4095, 12, 30},
};
#define NBDAY_QUICK	6
#define NBDAY		((int)(sizeof(bdays) / sizeof(*bdays)))
static int nbday;

static int
bday_rd(int i)
{
	return rc_rd(bdays[i][0], bdays[i][1], bdays[i][2]);
}

static const int add_reps[] = {H_YMD, H_YWD, H_YD, H_YMCW, H_DAISY, H_SEXY, H_BIZDA};
#define NADDREP	7
#define NSEQREP	6	/* SEQ leaves the bizda-held values out: an intermediate value on a weekend has no name there */

static void
mk_cmd_add(char *cmd, size_t csz, int h, const char *text, const char *durtext)
{
	char opt[96] = "";
	if (h == H_DAISY) {
		cmd[0] = '\0';	/* a day count is not held by dadd from the command line */
		return;
	}
	if (held_ifmt[h]) {
		snprintf(opt + strlen(opt), sizeof(opt) - strlen(opt), "-i '%s' ", held_ifmt[h]);
	}
	if (held_ofmt[h]) {
		snprintf(opt + strlen(opt), sizeof(opt) - strlen(opt), "-f '%s' ", held_ofmt[h]);
	}
	snprintf(cmd, csz, "dadd %s%s %s", opt, text, durtext);
}

/* print as the tool prints */
static void
prn(char *buf, size_t bsz, int h, struct dt_dt_s v)
{
	memset(buf, 0, bsz);
	dt_strfdt(buf, bsz, held_ofmt[h], v);
}

/* one (representation, day, second): all durations (DI < 0) or one */
static int
judge_add(int h, int rd, int sod, int di, int replay)
{
	struct dt_dt_s v;
	char text[64], got[96], key[200], cas[96], cmd[256];
	int64_t inst = (int64_t)rc_get(rd)->unixd * 86400 + sod, gi;
	int s60, bad = 0;
	EX_CTR(c_eval, "evaluations");
	EX_CTR(c_trans, "transitions");
	EX_CTR(c_nontriv, "nontrivial");
	EX_CTR(c_skipv, "skipped:the representation has no such value or it does not print as itself (parsing/printing is C09/C02's business)");
	EX_CTR(c_skipr, "skipped:result outside 1601-01-01..4095-12-31");

	++*c_eval;
	if (!held_value(h, rd, sod, &v, text, sizeof(text))) {
		*c_skipv += (uint64_t)(di == -1 ? NDUR : di == -2 ? ncdur : 1);
		if (replay) {
			printf("  '%s' (%s) is not accepted\n", text, held_name[h]);
		}
		return 0;
	}
	prn(got, sizeof(got), h, v);
	++*c_eval;
	if (!dec_datetime(held_olayout[h], got, &gi, &s60) || gi != inst) {
		*c_skipv += (uint64_t)(di == -1 ? NDUR : di == -2 ? ncdur : 1);
		if (replay) {
			printf("  '%s' (%s) prints as '%s', not as itself\n", text, held_name[h], got);
		}
		return 0;
	}
	/* DI: -1 the base durations, -2 the carry family, else one duration */
	for (int k = (di == -1 ? 0 : di == -2 ? NDUR : di); k < (di == -1 ? NDUR : di == -2 ? NDUR + ncdur : di + 1); k++) {
		const struct dur_s *d = durs + k;
		int64_t want = inst + d->secs;
		struct dt_dt_s r;
		const char *why = NULL;

		if (!d->ok) {
			snprintf(key, sizeof(key), "duration '%s' is not accepted", d->text);
			snprintf(cas, sizeof(cas), "ADD %d %d %d %d", h, rd, sod, k);
			ex_viol(key, 0, cas, NULL, "dt_io_strpdtdur rejects '%s'", d->text);
			bad++;
			continue;
		}
		if (want < INST_MIN || want > INST_MAX) {
			++*c_skipr;
			continue;
		}
		r = dt_dtadd(v, d->dur);
		prn(got, sizeof(got), h, r);
		*c_eval += 2;
		++*c_trans;
		if (want / 86400 != inst / 86400 || (want < 0) != (inst < 0)) {
			++*c_nontriv;
		}
		ex_outcome(ex_hash(got, strlen(got)));
		if (!dec_datetime(held_olayout[h], got, &gi, &s60)) {
			why = "result is not a date-time";
		} else if (gi != want || s60) {
			why = "wrong instant";
		}
		if (replay) {
			printf("  %s (%s-held) %s -> '%s'%s; Unix seconds %lld %+lld = %lld\n", text, held_name[h], d->text, got,
			       why ? " WRONG" : "", (long long)inst, (long long)d->secs, (long long)want);
		}
		if (why) {
			int64_t a = d->secs < 0 ? -d->secs : d->secs;
			/* a bizda-held value cannot name a weekend day; such results are kept apart
			 * (-DC11_SKIP_BIZDA_WEEKEND leaves them out: the reading C03/C07 use for day arithmetic) */
			int wkend = h == H_BIZDA && !rc_get(RD_OF_INST(want))->isbd;
#if defined C11_SKIP_BIZDA_WEEKEND
			if (wkend) {
				EX_CTR(c_skipw, "skipped:bizda-held value whose result falls on a weekend (no name in that calendar)");
				++*c_skipw;
				continue;
			}
#endif
			if (k >= NDUR && wkend) {
				/* the weekend defect of bizda-held values is recorded under the `add rep=bizda' classes */
				EX_CTR(c_skipcw, "skipped:carry family, bizda-held value whose result falls on a weekend (recorded under the add classes)");
				++*c_skipcw;
				continue;
			}
			if (k >= NDUR) {
				/* carry family: keyed by the size class of the day carry */
				snprintf(key, sizeof(key), "add-carry rep=%s unit=%c sign=%c span=%s%s: %s", held_name[h], unit_ch[d->unit], d->neg ? '-' : '+',
					 a < 7 * 86400 ? "under-7-days" : a < 8 * 86400 ? "7-to-8-days" : "8-days-or-more", wkend ? " result-on-weekend" : "", why);
			} else
			snprintf(key, sizeof(key), "add rep=%s unit=%c sign=%c span=%s%s: %s", held_name[h], unit_ch[d->unit], d->neg ? '-' : '+',
				 a < 86400 ? "under-a-day" : a == 86400 ? "one-day" : "over-a-day", wkend ? " result-on-weekend" : "", why);
			snprintf(cas, sizeof(cas), "ADD %d %d %d %d", h, rd, sod, k);
			mk_cmd_add(cmd, sizeof(cmd), h, text, d->text);
			ex_viol(key, (double)a, cas, cmd[0] ? cmd : NULL,
				"%s (%s-held, Unix %lld) %s gives '%s'; %lld seconds later is Unix %lld", text, held_name[h],
				(long long)inst, d->text, got, (long long)d->secs, (long long)want);
			bad++;
		}
	}
	return bad;
}

/* ---- MIL: T24:00:00 ---- */
static const int mil_reps[] = {H_YMD, H_YWD, H_YMCW};

static int ddiff_secs(struct dt_dt_s a, struct dt_dt_s b, char *out, size_t osz);

static int
judge_mil(int h, int rd, int replay)
{
	struct dt_dt_s v, nx;
	char text[64], ntext[64], got[96], key[160], cas[64], cmd[256];
	int64_t want = ((int64_t)rc_get(rd)->unixd + 1) * 86400, gi;
	int s60, bad = 0;
	EX_CTR(c_eval, "evaluations");
	EX_CTR(c_trans, "transitions");
	EX_CTR(c_skipv, "skipped:the representation has no such value or it does not print as itself (parsing/printing is C09/C02's business)");

	snprintf(cas, sizeof(cas), "MIL %d %d", h, rd);
	++*c_eval;
	if (!held_value(h, rd, 86400, &v, text, sizeof(text))) {
		snprintf(key, sizeof(key), "24:00:00 rep=%s: text not accepted", held_name[h]);
		snprintf(cmd, sizeof(cmd), "dconv %s", text);
		ex_viol(key, rd, cas, cmd, "'%s' is rejected by the standard parser", text);
		return 1;
	}
	/* (a) %s */
	memset(got, 0, sizeof(got));
	dt_strfdt(got, sizeof(got), "%s", v);
	++*c_eval;
	++*c_trans;
	ex_outcome(ex_hash(got, strlen(got)));
	if (replay) {
		printf("  %s printed with %%s: '%s', 00:00:00 of the following day is %lld\n", text, got, (long long)want);
	}
	if (strtoll(got, NULL, 10) != want || !got[0]) {
		snprintf(key, sizeof(key), "24:00:00 rep=%s check=epoch-out", held_name[h]);
		snprintf(cmd, sizeof(cmd), "dconv -f %%s %s", text);
		ex_viol(key, rd, cas, cmd, "'%s' printed with %%s gives '%s'; 00:00:00 of the following day is %lld", text, got, (long long)want);
		bad++;
	}
	/* (b) +1 s and -1 s */
	for (int k = 0; k < 2; k++) {
		const struct dur_s *d = durs + k;	/* +1s, -1s */
		struct dt_dt_s r = dt_dtadd(v, d->dur);
		int64_t w = want + d->secs;
		prn(got, sizeof(got), h, r);
		*c_eval += 2;
		++*c_trans;
		ex_outcome(ex_hash(got, strlen(got)));
		if (replay) {
			printf("  %s %s -> '%s'\n", text, d->text, got);
		}
		if (w > INST_MAX) {
			continue;
		}
		if (!dec_datetime(held_olayout[h], got, &gi, &s60) || gi != w) {
			snprintf(key, sizeof(key), "24:00:00 rep=%s check=add%s", held_name[h], d->text);
			mk_cmd_add(cmd, sizeof(cmd), h, text, d->text);
			ex_viol(key, rd, cas, cmd, "'%s' %s gives '%s'; expected Unix %lld", text, d->text, got, (long long)w);
			bad++;
		}
	}
	/* (c) difference to the next day's midnight, in seconds */
	if (rd + 1 < RC_NDAYS && held_value(h, rd + 1, 0, &nx, ntext, sizeof(ntext))) {
		int ok = ddiff_secs(v, nx, got, sizeof(got));
		++*c_trans;
		if (replay) {
			printf("  ddiff %s %s -f %%S -> '%s'\n", text, ntext, got);
		}
		if (!ok || strtoll(got, NULL, 10) != 0) {
			snprintf(key, sizeof(key), "24:00:00 rep=%s check=diff-to-next-midnight", held_name[h]);
			snprintf(cmd, sizeof(cmd), "ddiff %s %s -f %%S", text, ntext);
			ex_viol(key, rd, cas, cmd, "ddiff '%s' '%s' -f %%S gives '%s'; both are the same instant", text, ntext, got);
			bad++;
		}
	}
	return bad;
}

/* ---- EPOCH ---- */
static const int eout_reps[] = {H_YMD, H_YWD, H_YD, H_YMCW, H_DAISY, H_SEXY, H_SEXYFMT};
#define NEOUT	7

static int
judge_epoch(int rd, int sod, int replay)
{
	int64_t inst = (int64_t)rc_get(rd)->unixd * 86400 + sod, gi;
	char text[64], got[96], key[160], cas[64], cmd[256];
	int s60, bad = 0;
	EX_CTR(c_eval, "evaluations");
	EX_CTR(c_trans, "transitions");
	EX_CTR(c_skipv, "skipped:the representation has no such value or it does not print as itself (parsing/printing is C09/C02's business)");

	snprintf(cas, sizeof(cas), "EPOCH %d %d", rd, sod);
	/* in: @N and %s -> civil */
	for (int k = 0; k < 2; k++) {
		int h = k ? H_SEXYFMT : H_SEXY;
		struct dt_dt_s v;
		++*c_eval;
		if (!held_value(h, rd, sod, &v, text, sizeof(text))) {
			snprintf(key, sizeof(key), "epoch-in src=%s %s: not accepted", k ? "%s" : "@N", inst < 0 ? "negative" : "non-negative");
			snprintf(cmd, sizeof(cmd), "dconv %s%s", k ? "-i %s " : "", text);
			ex_viol(key, (double)inst, cas, cmd, "epoch value '%s' is rejected (civil %04d-%02d-%02d second %d)", text,
				rc_get(rd)->y, rc_get(rd)->m, rc_get(rd)->d, sod);
			if (replay) {
				printf("  '%s' rejected\n", text);
			}
			bad++;
			continue;
		}
		memset(got, 0, sizeof(got));
		dt_strfdt(got, sizeof(got), "%FT%T", v);
		++*c_eval;
		++*c_trans;
		ex_outcome(ex_hash(got, strlen(got)));
		if (replay) {
			printf("  '%s' -> '%s'\n", text, got);
		}
		if (!dec_datetime(H_YMD, got, &gi, &s60) || gi != inst || s60) {
			snprintf(key, sizeof(key), "epoch-in src=%s %s: wrong civil date-time", k ? "%s" : "@N", inst < 0 ? "negative" : "non-negative");
			snprintf(cmd, sizeof(cmd), "dconv %s-f '%%FT%%T' %s", k ? "-i %s " : "", text);
			ex_viol(key, (double)inst, cas, cmd, "epoch value '%s' prints as '%s'; the civil date-time is %04d-%02d-%02d second %d of the day",
				text, got, rc_get(rd)->y, rc_get(rd)->m, rc_get(rd)->d, sod);
			bad++;
		}
	}
	/* out: civil (in every held representation) -> %s */
	for (int k = 0; k < NEOUT; k++) {
		int h = eout_reps[k];
		struct dt_dt_s v;
		char *ep = NULL;
		long long g;
		++*c_eval;
		if (!held_value(h, rd, sod, &v, text, sizeof(text))) {
			++*c_skipv;
			continue;
		}
		memset(got, 0, sizeof(got));
		dt_strfdt(got, sizeof(got), "%s", v);
		++*c_eval;
		++*c_trans;
		ex_outcome(ex_hash(got, strlen(got)));
		g = strtoll(got, &ep, 10);
		if (replay) {
			printf("  '%s' (%s) printed with %%s -> '%s'\n", text, held_name[h], got);
		}
		if (!got[0] || *ep || g != inst) {
			snprintf(key, sizeof(key), "epoch-out rep=%s %s", held_name[h], inst < 0 ? "negative" : "non-negative");
			snprintf(cmd, sizeof(cmd), "dconv %s%s%s-f %%s %s", held_ifmt[h] ? "-i '" : "", held_ifmt[h] ? held_ifmt[h] : "", held_ifmt[h] ? "' " : "", text);
			ex_viol(key, (double)inst, cas, h == H_DAISY ? NULL : cmd, "'%s' (%s-held) printed with %%s gives '%s'; its Unix seconds are %lld",
				text, held_name[h], got, (long long)inst);
			bad++;
		}
	}
	return bad;
}

/* ---- DIFF: what `ddiff A B -f %S' prints, through ddiff.c's own functions ---- */
static int
ddiff_secs(struct dt_dt_s a, struct dt_dt_s b, char *out, size_t osz)
{
	static durfmt_t dfmt;
	static int init;
	dt_dtdurtyp_t dtyp;
	struct dt_dtdur_s dur;
	bool onlydp;
	EX_CTR(c_eval, "evaluations");

	if (!init) {
		dfmt = determine_durfmt("%S");
		init = 1;
	}
	memset(out, 0, osz);
	onlydp = dt_sandwich_only_d_p(a) || dt_sandwich_only_d_p(b);
	if (!(dtyp = determine_durtype(a, b, dfmt))) {
		snprintf(out, osz, "(not defined)");
		return 0;
	}
	dur = dt_dtdiff(dtyp, a, b);
	__strfdtdur(out, osz, "%S", dur, dfmt, onlydp);
	*c_eval += 2;
	return 1;
}

static const int diff_reps[] = {H_YMD, H_YWD, H_YD, H_YMCW, H_DAISY, H_SEXY};
#define NDIFFREP	6
static const int t7[] = {0, 1, 3599, 3600, 43199, 43200, 86399};
static const int ddays[][3] = {
	{1601, 1, 1}, {1601, 1, 2}, {1899, 12, 31}, {1900, 1, 1}, {1900, 2, 28}, {1900, 3, 1}, {1969, 12, 31}, {1970, 1, 1},
	{1970, 1, 2}, {1999, 12, 31}, {2000, 1, 1}, {2000, 2, 28}, {2000, 2, 29}, {2000, 3, 1}, {2008, 12, 28}, {2008, 12, 29},
	{2009, 1, 1}, {2010, 1, 3}, {2010, 1, 4}, {2010, 12, 31}, {2011, 1, 1}, {2011, 1, 2}, {2011, 1, 3}, {2012, 2, 28},
	{2012, 2, 29}, {2012, 3, 1}, {2012, 3, 30}, {2012, 3, 31}, {2012, 4, 1}, {2012, 6, 30}, {2012, 7, 1}, {2012, 12, 31},
	{2013, 1, 1}, {2038, 1, 19}, {2038, 1, 20}, {2099, 12, 31}, {2100, 1, 1}, {2100, 3, 1}, {4095, 12, 30}, {4095, 12, 31},
};
#define NDDAY	((int)(sizeof(ddays) / sizeof(*ddays)))

static int
judge_diff(int h, int rda, int sa, int rdb, int sb, int replay)
{
	struct dt_dt_s a, b;
	char ta[64], tb[64], got[96], key[160], cas[96], cmd[256];
	int64_t want = ((int64_t)rc_get(rdb)->unixd * 86400 + sb) - ((int64_t)rc_get(rda)->unixd * 86400 + sa);
	char *ep = NULL;
	long long g;
	int ok;
	EX_CTR(c_eval, "evaluations");
	EX_CTR(c_trans, "transitions");
	EX_CTR(c_nontriv, "nontrivial");
	EX_CTR(c_skipv, "skipped:the representation has no such value or it does not print as itself (parsing/printing is C09/C02's business)");

	*c_eval += 2;
	if (!held_value(h, rda, sa, &a, ta, sizeof(ta)) || !held_value(h, rdb, sb, &b, tb, sizeof(tb))) {
		++*c_skipv;
		return 0;
	}
	ok = ddiff_secs(a, b, got, sizeof(got));
	++*c_trans;
	if (rda != rdb && (sa > sb) != (rda > rdb)) {
		++*c_nontriv;	/* the clock difference has the other sign than the day difference */
	}
	ex_outcome(ex_hash(got, strlen(got)));
	g = strtoll(got, &ep, 10);
	if (replay) {
		printf("  ddiff %s %s -f %%S (%s-held) -> '%s'; Unix seconds differ by %lld\n", ta, tb, held_name[h], got, (long long)want);
	}
	if (!ok || !got[0] || *ep || g != want) {
		snprintf(key, sizeof(key), "diff rep=%s sign=%c span=%s", held_name[h], want < 0 ? '-' : want > 0 ? '+' : '0',
			 llabs(want) < 86400 ? "under-a-day" : "a-day-or-more");
		snprintf(cas, sizeof(cas), "DIFF %d %d %d %d %d", h, rda, sa, rdb, sb);
		snprintf(cmd, sizeof(cmd), "ddiff %s%s%s%s %s -f %%S", held_ifmt[h] ? "-i '" : "", held_ifmt[h] ? held_ifmt[h] : "", held_ifmt[h] ? "' " : "", ta, tb);
		ex_viol(key, (double)llabs(want), cas, h == H_DAISY ? NULL : cmd, "ddiff %s %s -f %%S (%s-held) gives '%s'; the Unix seconds differ by %lld",
			ta, tb, held_name[h], got, (long long)want);
		return 1;
	}
	return 0;
}

/* ---- BIND: the binaries on a whole day of seconds ---- */
struct bind_s {
	const char *tool;
	int h;
	int bday;	/* index into bdays */
	const char *arg;	/* duration for dadd; NULL for dconv -f %s */
	const char *cal;	/* non-NULL: the lines are read with `-i CAL' (a calendar name as input format) and printed
				 * in the tool's default format; the library level parses with the same name */
};
static const struct bind_s binds[] = {
	{"dadd", H_YMD, 2, "+1s"}, {"dadd", H_YMD, 2, "-86401s"}, {"dadd", H_YWD, 3, "+61m"}, {"dadd", H_YMCW, 3, "-25h"},
	{"dadd", H_YD, 2, "+3601s"}, {"dadd", H_SEXYFMT, 4, "+2147483647s"}, {"dconv", H_YMD, 1, NULL}, {"dconv", H_YWD, 3, NULL},
	/* negative epoch counts as stdin lines (1969-12-31: -86400 .. -1) */
	{"dconv", H_SEXYFMT, 1, NULL}, {"dadd", H_SEXYFMT, 1, "+1s"},
	/* calendar names as input format, date-times on stdin */
	{"dadd", H_YMD, 2, "+1s", "ymd"}, {"dadd", H_YD, 2, "+1s", "yd"},
	/* thorough only from here; -i %s runs avoid 1970-01-01 (the count 0 is rejected, see notes/C11-defects.md, and a
	 * skipped line would shift the comparison) and negative durations: `dadd -i %s -1s' reads "-1s" as the
	 * date @-1 (trailing text is not refused) and then takes stdin for durations -- parsing is C09's business */
	{"dadd", H_YMD, 0, "-1s"}, {"dadd", H_YMD, 5, "+86399s"}, {"dadd", H_YWD, 13, "+1s"}, {"dadd", H_YWD, 14, "-1s"},
	{"dadd", H_YMCW, 18, "+59m"}, {"dadd", H_YD, 3, "+1h"}, {"dadd", H_SEXYFMT, 2, "+86400s"}, {"dadd", H_YMD, 12, "+172800s"},
	{"dconv", H_YMCW, 2, NULL}, {"dconv", H_YD, 5, NULL}, {"dconv", H_YMD, 0, NULL}, {"dconv", H_YMD, 5, NULL},
	{"dadd", H_YWD, 2, "+1s", "ywd"}, {"dadd", H_YMCW, 2, "+1s", "ymcw"}, {"dadd", H_BIZDA, 2, "+1s", "bizda"}, {"dadd", H_YMD, 3, "-1s", "ymd"},
	{"ddiff", H_YMD, 2, "2012-03-01T00:00:00"}, {"ddiff", H_YWD, 3, "2013-W01-2T12:00:00"}, {"ddiff", H_YMD, 1, "1970-01-01T00:00:00"},
};
#define NBIND_QUICK	12
#define NBIND		((int)(sizeof(binds) / sizeof(*binds)))

static void
do_bind(int k)
{
	const struct bind_s *b = binds + k;
	const char *rundir = getenv("VERIF_RUNDIR");
	char fin[512], fout[512], cmd[2048], opt[128] = "", line[256], text[64], exp[128], key[200], cas[64];
	int rd = bday_rd(b->bday), n = 0;
	struct __strpdtdur_st_s st = {0};
	struct dt_dt_s ref;
	FILE *f;
	EX_CTR(c_bind, "cli_binding_replays");
	EX_CTR(c_bindln, "cli_binding_lines");

	if (rundir == NULL || ex.tree == NULL) {
		return;
	}
	snprintf(fin, sizeof(fin), "%s/c11bind.%d.in", rundir, k);
	snprintf(fout, sizeof(fout), "%s/c11bind.%d.out", rundir, k);
	if ((f = fopen(fin, "w")) == NULL) {
		return;
	}
	for (int s = 0; s < 86400; s++) {
		held_text(b->h, rd, s, text, sizeof(text));
		fprintf(f, "%s\n", text);
	}
	fclose(f);
	if (b->cal) {
		snprintf(opt, sizeof(opt), "-i %s ", b->cal);
	} else if (held_ifmt[b->h]) {
		snprintf(opt, sizeof(opt), "-i '%s' ", held_ifmt[b->h]);
	}
	if (!strcmp(b->tool, "dadd")) {
		if (held_ofmt[b->h] && !b->cal) {
			snprintf(opt + strlen(opt), sizeof(opt) - strlen(opt), "-f '%s' ", held_ofmt[b->h]);
		}
		snprintf(cmd, sizeof(cmd), "'%s/src/dadd' %s-- %s < '%s' > '%s' 2>/dev/null", ex.tree, opt, b->arg, fin, fout);
		dt_io_strpdtdur(&st, b->arg);
	} else if (!strcmp(b->tool, "dconv")) {
		snprintf(cmd, sizeof(cmd), "'%s/src/dconv' %s-f %%s < '%s' > '%s' 2>/dev/null", ex.tree, opt, fin, fout);
	} else {
		snprintf(cmd, sizeof(cmd), "'%s/src/ddiff' %s-f %%S %s < '%s' > '%s' 2>/dev/null", ex.tree, opt, b->arg, fin, fout);
		ref = dt_strpdt(b->arg, held_ifmt[b->h], NULL);
	}
	if (system(cmd) < 0) {
		return;
	}
	++*c_bind;
	snprintf(key, sizeof(key), "binding %s rep=%s %s%s%s%s", b->tool, held_name[b->h], b->arg ? b->arg : "-f %s",
		 (b->h == H_SEXY || b->h == H_SEXYFMT) && rc_get(rd)->unixd < 0 ? " negative-counts-on-stdin" : "",
		 b->cal ? " date-times-on-stdin -i " : "", b->cal ? b->cal : "");
	if ((f = fopen(fout, "r")) == NULL) {
		ex_viol(key, 0, "", cmd, "no output from the binary");
		return;
	}
	for (int s = 0; s < 86400 && fgets(line, sizeof(line), f); s++, n++) {
		struct dt_dt_s v;
		line[strcspn(line, "\n")] = '\0';
		memset(exp, 0, sizeof(exp));
		if (b->cal) {
			/* what `dadd -i CAL TEXT DUR' does with the text as an argument */
			held_text(b->h, rd, s, text, sizeof(text));
			v = dt_strpdt(text, b->cal, NULL);
			if (!dt_unk_p(v)) {
				struct dt_dt_s r = st.ndurs ? dt_dtadd(v, st.durs[0]) : v;
				dt_strfdt(exp, sizeof(exp), NULL, r);
			}
		} else if (held_value(b->h, rd, s, &v, text, sizeof(text))) {
			if (!strcmp(b->tool, "dadd")) {
				struct dt_dt_s r = st.ndurs ? dt_dtadd(v, st.durs[0]) : v;
				dt_strfdt(exp, sizeof(exp), held_ofmt[b->h], r);
			} else if (!strcmp(b->tool, "dconv")) {
				dt_strfdt(exp, sizeof(exp), "%s", v);
			} else {
				ddiff_secs(ref, v, exp, sizeof(exp));
			}
		}
		++*c_bindln;
		if (strcmp(exp, line)) {
			snprintf(cas, sizeof(cas), "BIND %d %d", k, s);
			ex_viol(key, s, cas, cmd, "line %d ('%s'): the binary prints '%s', the library-level exploration observed '%s'", s + 1, text, line, exp);
		}
	}
	fclose(f);
	if (n != 86400) {
		ex_viol(key, n, "", cmd, "the binary printed %d lines for 86400 input lines", n);
	}
	__strpdtdur_free(&st);
	unlink(fin);
	unlink(fout);
}

#include "c11_seq.h"

/* times of day for SEQ: the midnight and hour seams; thorough adds every full minute */
static int seq_tods[1500], nseq_tods;

static void
mk_seq_tods(int thorough)
{
	static const int base[] = {0, 1, 3599, 3600, 43200, 79200, 82800, 86399};
	for (int i = 0; i < 8; i++) {
		seq_tods[nseq_tods++] = base[i];
	}
	for (int m = 0; thorough && m < 1440; m++) {
		int s = m * 60, dup = 0;
		for (int i = 0; i < 8; i++) {
			dup |= base[i] == s;
		}
		if (!dup) {
			seq_tods[nseq_tods++] = s;
		}
	}
}

int
main(int argc, char *argv[])
{
	uint64_t slice = 0;
	EX_CTR(c_states, "states");
	EX_CTR(c_traces, "traces");

	ex_init(argc, argv);
	rc_selfcheck();
	mk_durs();
	ex_wd_init(1000);	/* zone lookups of the SEQ zone variants run under the watchdog */

	if (ex.cas) {
		int a[6] = {0}, b7[1] = {0};
		if (!strncmp(ex.cas, "ADD ", 4) && sscanf(ex.cas + 4, "%d %d %d %d", a, a + 1, a + 2, a + 3) == 4 &&
		    a[0] >= 0 && a[0] < NHELD && rc_get(a[1]) && a[2] >= 0 && a[2] <= 86400 && a[3] >= 0 && a[3] < NDUR + ncdur) {
			return ex_replay_result(judge_add(a[0], a[1], a[2], a[3], 1), "addition rep=%s", held_name[a[0]]);
		}
		if (!strncmp(ex.cas, "MIL ", 4) && sscanf(ex.cas + 4, "%d %d", a, a + 1) == 2 && a[0] >= 0 && a[0] < NHELD && rc_get(a[1])) {
			return ex_replay_result(judge_mil(a[0], a[1], 1), "24:00:00 rep=%s", held_name[a[0]]);
		}
		if (!strncmp(ex.cas, "EPOCH ", 6) && sscanf(ex.cas + 6, "%d %d", a, a + 1) == 2 && rc_get(a[0]) && a[1] >= 0 && a[1] < 86400) {
			return ex_replay_result(judge_epoch(a[0], a[1], 1), "epoch in/out");
		}
		if (!strncmp(ex.cas, "DIFF ", 5) && sscanf(ex.cas + 5, "%d %d %d %d %d", a, a + 1, a + 2, a + 3, a + 4) == 5 &&
		    a[0] >= 0 && a[0] < NHELD && rc_get(a[1]) && rc_get(a[3])) {
			return ex_replay_result(judge_diff(a[0], a[1], a[2], a[3], a[4], 1), "difference rep=%s", held_name[a[0]]);
		}
		if (!strncmp(ex.cas, "SEQ ", 4) && sscanf(ex.cas + 4, "%d %d %d %d %d %d %d", a, a + 1, a + 2, a + 3, a + 4, a + 5, b7) == 7 &&
		    a[0] >= 0 && a[0] < NHELD && rc_get(a[1]) && a[2] >= 0 && a[2] < 86400 && (a[3] == 2 || a[3] == 3) &&
		    a[4] >= 0 && a[4] < NSEQA && a[5] >= 0 && a[5] < NSEQA && b7[0] >= 0 && b7[0] < NSEQA) {
			int k;
			mk_seqs(1);
			k = a[3] == 2 ? a[4] * NSEQA + a[5] : nseq2 + (a[4] * NSEQA + a[5]) * NSEQA + b7[0];
			return ex_replay_result(judge_seq(a[0], a[1], a[2], k, k + 1, 1), "sequence of %d durations rep=%s", a[3], held_name[a[0]]);
		}
		if (!strncmp(ex.cas, "SEQA ", 5) && sscanf(ex.cas + 5, "%d %d", a, a + 1) == 2 && a[0] >= 0 && a[0] < NSEQZT && a[1] >= 0 && a[1] < NSEQA * NSEQA) {
			mk_seqs(0);
			return ex_replay_result(judge_seq_args(a[0], a[1], 1), "dadd with two duration arguments");
		}
		if (!strcmp(ex.cas, "NEGEP")) {
			return ex_replay_result(judge_stdin_negepoch(1), "negative epoch counts inside stdin lines");
		}
		if (!strncmp(ex.cas, "SDZ ", 4) && sscanf(ex.cas + 4, "%d", a) == 1 && a[0] >= 0 && a[0] < NSDZ) {
			mk_seqs(0);
			return ex_replay_result(judge_stdin_durs(a[0], 1), "durations on stdin with --from-zone %s", seq_zones[sdz[a[0]].zi]);
		}
		if (!strncmp(ex.cas, "ZEP ", 4) && sscanf(ex.cas + 4, "%d %d %d %d", a, a + 1, a + 2, a + 3) == 4 &&
		    a[0] >= 0 && a[0] < NSEQZ && rc_get(a[1]) && a[2] >= 0 && a[2] < 86400) {
			return ex_replay_result(judge_zep(a[0], a[1], a[2], a[3] != 0, 1), "epoch seconds under zone %s", seq_zones[a[0]]);
		}
		if (!strncmp(ex.cas, "SEQZ ", 5) && sscanf(ex.cas + 5, "%d %d %d", a, a + 1, a + 2) == 3 &&
		    a[0] >= 0 && a[0] < NSEQZ && a[1] >= 0 && a[1] < NSEQZT && a[2] >= 0 && a[2] < NSEQA * NSEQA) {
			mk_seqs(0);
			return ex_replay_result(judge_seqz(a[0], a[1], a[2], 1), "--from-zone %s then two durations", seq_zones[a[0]]);
		}
		if (!strncmp(ex.cas, "SEQB ", 5) && sscanf(ex.cas + 5, "%d %d %d %d", a, a + 1, a + 2, a + 3) == 4 &&
		    a[1] >= 0 && a[1] < NSEQZ && a[2] >= 0 && a[2] < NSEQZT && a[3] >= 0 && a[3] < NSEQA * NSEQA) {
			mk_seqs(0);
			return ex_replay_result(judge_seqb(a[0] != 0, a[1], a[2], a[3], 1), "dadd binary with zone %s and two durations", seq_zones[a[1]]);
		}
		if (!strncmp(ex.cas, "BIND ", 5) && sscanf(ex.cas + 5, "%d %d", a, a + 1) == 2 && a[0] >= 0 && a[0] < NBIND) {
			/* the binding compares whole runs; replay re-runs that run */
			int before = ex.nviol;
			if (getenv("VERIF_RUNDIR") == NULL) {
				setenv("VERIF_RUNDIR", "/tmp", 1);
			}
			do_bind(a[0]);
			for (int i = before; i < ex.nviol; i++) {
				printf("  %s\n", ex.viol[i].detail);
			}
			return ex_replay_result(ex.nviol > before, "binding run %d", a[0]);
		}
		return ex_replay_result(1, "bad case string '%s'", ex.cas);
	}

	nbday = ex.thorough ? NBDAY : NBDAY_QUICK;
	mk_seqs(ex.thorough);
	mk_seq_tods(ex.thorough);
	ex_meta("rule", "oracle: Unix seconds (reference day ordinal x 86400 + second of the day). ADD/SEAM: the date-time is parsed from its "
		"representation's text as the tools parse it, the duration is parsed by dt_io_strpdtdur as dadd parses it, dt_dtadd is applied, "
		"the result is printed as dadd prints it (year-day values with an explicit %%Y-%%jT%%T, day counts with %%FT%%T) and decoded by a "
		"table-walking decoder: it must be exactly n x unit seconds later; results outside 1601..4095 are skipped and counted. "
		"MIL: T24:00:00 must print with %%s, add and subtract a second and differ from the next T00:00:00 as 00:00:00 of the following day does. "
		"EPOCH: @N and -i %%s must print the civil date-time of N, every held representation must print N with %%s. "
		"SEQ: several durations in one dadd invocation (one dt_io_strpdtdur parser state, dt_dtadd per duration on the running value, as "
		"src/dadd.c does): the printed result must be start + sum of the steps; the day carry left in the value by one step must not be seen by "
		"the next; class keys name the shape of the steps (x = crosses a midnight, d = exact multiple of a day incl. 0, n = neither), not their "
		"values; zone variants: --from-zone values that cross midnight on their way to UTC (the UTC start is the implementation's own single "
		"conversion, zone correctness is C12's) and --zone output (expected text = single conversion of the model's result). "
		"ZEP: seconds since the epoch name an instant: %%s printed under --zone must be the instant's count, %%s and @N read under --from-zone "
		"must give the instant of that count (library path dtz_enrichz / dt_io_strpdt with the zone, and the dconv binary). "
		"DIFF: what ddiff A B -f %%S prints (ddiff.c's determine_durfmt/determine_durtype/dt_dtdiff/__strfdtdur) must be Unix(B) - Unix(A). "
		"non-trivial = addition whose result lies on another day than its start; difference whose clock part has the other sign than its day part");
	ex_meta("bound", "ADD: %d boundary days x 86,400 seconds x %d durations (+-{1,59,60,61,3599,3600,3601,86399,86400,86401,172800,604800,31536000,2^31-1} "
		"x {s,m,h}) x 7 held representations (ymd ywd yd ymcw daisy epoch bizda[business days]); SEAM: 911,280 days x {00:00:00,23:59:59} x {+-1s,+-86400s} x 7; "
		"MIL: 911,280 days x {ymd,ywd,ymcw} x 4 checks; EPOCH: 911,280 days x {23:59:59 before, 00:00:00, 00:00:01} and %d days x 86,400 s, "
		"2 inputs + 7 outputs each; CARRY: the same boundary days x the SEQ times of day x 7 representations x %d durations (N days +- {0,1s,1h,12h,86399s} "
		"for N = -10..+10 in s, m, h where exact: every day-carry value -9..+9); ZEP: the SEQ zones x boundary days x 48 instants (every hour's first and last second), binaries on 3 instants of 6 days; SEQ: %d boundary days x %d times of day (00:00:00 00:00:01 00:59:59 01:00:00 12:00:00 22:00:00 23:00:00 23:59:59%s) "
		"x 6 representations x all %d ordered pairs of the %d-duration alphabet (+1s -1s +2h -2h +90m -90m +24h -24h +48h -48h +1440m +86400s -86400s +0s +3600s +25h -25h and the unsigned 30m 2s 1h; the pairs ending in an unsigned spelling also through the dadd binary with arguments; negative epoch counts inside stdin lines at line start, behind a blank and behind a tab for -i %%s)%s; "
		"--from-zone at library level: %d zones x 8 local times x all pairs; dadd binary: the same zones and times x the 33 pairs containing +24h x {--from-zone, --zone}; DIFF: (40 seam days x 7 times)^2 ordered pairs x 6 representations, and 911,280 days x 4 neighbour pairs x 3",
		nbday, NDUR, nbday, ncdur, nbday, nseq_tods, ex.thorough ? " and every full minute" : "", nseq2, NSEQA,
		ex.thorough ? ", and all 4,913 ordered triples of its 17 signed spellings on the first 6 boundary days" : "", ex.thorough ? NSEQZ : NSEQZ_QUICK);
	ex_meta("binding", "dadd / dconv -f %%s / ddiff -f %%S binaries of the same build, one process per run on the 86,400 seconds of a boundary day "
		"from stdin (%d runs), byte-compared with the library-level observation", ex.thorough ? NBIND : NBIND_QUICK);

	/* ADD: slice = (boundary day, representation, hour) */
	for (int bd = 0; bd < nbday; bd++) {
		int rd = bday_rd(bd);
		for (int r = 0; r < NADDREP; r++) {
			for (int hr = 0; hr < 24; hr++, slice++) {
				if (!ex_mine(slice) || ex_expired()) {
					continue;
				}
				for (int s = hr * 3600; s < (hr + 1) * 3600; s++) {
					++*c_states;
					judge_add(add_reps[r], rd, s, -1, 0);
				}
				++*c_traces;
				ex_sample("ADD %04d-%02d-%02d hour %02d (3600 seconds) %s-held x %d durations", bdays[bd][0], bdays[bd][1], bdays[bd][2],
					  hr, held_name[add_reps[r]], NDUR);
			}
		}
	}
	/* CARRY: slice = (boundary day, representation, block of times) */
	for (int bd = 0; bd < nbday; bd++) {
		int rd = bday_rd(bd);
		for (int r = 0; r < NADDREP; r++) {
			for (int t0 = 0; t0 < nseq_tods; t0 += 64, slice++) {
				if (!ex_mine(slice) || ex_expired()) {
					continue;
				}
				for (int t = t0; t < t0 + 64 && t < nseq_tods; t++) {
					++*c_states;
					judge_add(add_reps[r], rd, seq_tods[t], -2, 0);
				}
				++*c_traces;
				ex_sample("CARRY %04d-%02d-%02d %s-held: %d times of day x %d durations around whole days -10..+10", bdays[bd][0], bdays[bd][1],
					  bdays[bd][2], held_name[add_reps[r]], nseq_tods - t0 < 64 ? nseq_tods - t0 : 64, ncdur);
			}
		}
	}
	/* SEQ: slice = (boundary day, representation, block of times) */
	for (int bd = 0; bd < nbday; bd++) {
		int rd = bday_rd(bd);
		for (int r = 0; r < NSEQREP; r++) {
			for (int t0 = 0; t0 < nseq_tods; t0 += 64, slice++) {
				if (!ex_mine(slice) || ex_expired()) {
					continue;
				}
				for (int t = t0; t < t0 + 64 && t < nseq_tods; t++) {
					++*c_states;
					judge_seq(add_reps[r], rd, seq_tods[t], 0, bd < NBDAY_QUICK ? nseq : nseq2, 0);
				}
				ex_sample("SEQ %04d-%02d-%02d %s-held: %d times of day x %d duration sequences", bdays[bd][0], bdays[bd][1], bdays[bd][2],
					  held_name[add_reps[r]], nseq_tods - t0 < 64 ? nseq_tods - t0 : 64, bd < NBDAY_QUICK ? nseq : nseq2);
			}
		}
	}
	/* SEQ zone variants: slice = (zone, local time) */
	for (int zi = 0; zi < (ex.thorough ? NSEQZ : NSEQZ_QUICK); zi++) {
		for (int ti = 0; ti < NSEQZT; ti++, slice++) {
			if (!ex_mine(slice) || ex_expired()) {
				continue;
			}
			++*c_states;
			for (int k = 0; k < nseq2; k++) {
				judge_seqz(zi, ti, k, 0);
				if (seqs[k].idx[0] == SEQ_24H || seqs[k].idx[1] == SEQ_24H) {
					judge_seqb(0, zi, ti, k, 0);
					judge_seqb(1, zi, ti, k, 0);
				}
			}
			ex_sample("SEQ zone %s local time second %d: all %d pairs after --from-zone, dadd binary on the pairs with +24h", seq_zones[zi],
				  seq_ztod[ti], nseq2);
		}
	}
	/* dadd in argument mode on the pairs whose second element is spelt without a sign; slice = time of day */
	for (int ti = 0; ti < NSEQZT; ti++, slice++) {
		if (!ex_mine(slice) || ex_expired()) {
			continue;
		}
		for (int k = 0; k < nseq2; k++) {
			if (SEQ_UNSIGNED_P(seqs[k].idx[1])) {
				judge_seq_args(ti, k, 0);
			}
		}
		++*c_traces;
	}
	/* negative epoch counts inside stdin lines */
	if (ex_mine(slice++) && !ex_expired()) {
		struct itimerval zt = {{0, 0}, {0, 0}}, on;
		getitimer(ITIMER_REAL, &on);
		setitimer(ITIMER_REAL, &zt, NULL);
		judge_stdin_negepoch(0);
		on.it_value = on.it_interval;
		setitimer(ITIMER_REAL, &on, NULL);
	}
	/* durations on stdin with --from-zone; slice = case */
	for (int k = 0; k < NSDZ; k++, slice++) {
		if (ex_mine(slice) && !ex_expired()) {
			judge_stdin_durs(k, 0);
			++*c_traces;
		}
	}
	/* ZEP: %s / @N under --zone / --from-zone; slice = (zone, boundary day) */
	for (int zi = 0; zi < (ex.thorough ? NSEQZ : NSEQZ_QUICK); zi++) {
		for (int bd = 0; bd < nbday; bd++, slice++) {
			if (!ex_mine(slice) || ex_expired()) {
				continue;
			}
			for (int hr = 0; hr < 24; hr++) {
				++*c_states;
				judge_zep(zi, bday_rd(bd), hr * 3600, 0, 0);
				judge_zep(zi, bday_rd(bd), hr * 3600 + 3599, 0, 0);
			}
			/* the binaries on the seam hours of the day */
			if (bd < NBDAY_QUICK) {
				judge_zep(zi, bday_rd(bd), 0, 1, 0);
				judge_zep(zi, bday_rd(bd), 12 * 3600, 1, 0);
				judge_zep(zi, bday_rd(bd), 86399, 1, 0);
			}
			++*c_traces;
		}
	}
	/* SEAM: slice = year */
	for (int y = RC_MIN_YEAR; y <= RC_MAX_YEAR; y++, slice++) {
		if (!ex_mine(slice) || ex_expired()) {
			continue;
		}
		for (int rd = rc_yearstart[y]; rd < rc_yearstart[y + 1]; rd++) {
			++*c_states;
			for (int r = 0; r < NADDREP; r++) {
				for (int e = 0; e < 2; e++) {
					/* durations: index of +-1s and +-86400s in the table */
					static const int di[4] = {0, 1, 16, 17};
					for (int k = 0; k < 4; k++) {
						judge_add(add_reps[r], rd, e ? 86399 : 0, di[k], 0);
					}
				}
			}
			for (int r = 0; r < 3; r++) {
				if (rd + 1 < RC_NDAYS) {
					judge_mil(mil_reps[r], rd, 0);
				}
			}
			/* day boundary -1 / 0 / +1 s */
			if (rd > 0) {
				judge_epoch(rd - 1, 86399, 0);
			}
			judge_epoch(rd, 0, 0);
			judge_epoch(rd, 1, 0);
			/* neighbours in seconds: ddiff */
			if (rd + 1 < RC_NDAYS) {
				static const int dr[3] = {H_YMD, H_YWD, H_SEXY};
				for (int r = 0; r < 3; r++) {
					judge_diff(dr[r], rd, 0, rd + 1, 0, 0);
					judge_diff(dr[r], rd + 1, 0, rd, 0, 0);
					judge_diff(dr[r], rd, 86399, rd + 1, 0, 0);
					judge_diff(dr[r], rd + 1, 0, rd, 86399, 0);
				}
			}
		}
		++*c_traces;
		if (ex_want_sample()) {
			ex_sample("SEAM/MIL/EPOCH/DIFF year %d: every day x midnight seams", y);
		}
	}
	/* EPOCH on every second of the boundary days: slice = (day, hour) */
	for (int bd = 0; bd < nbday; bd++) {
		for (int hr = 0; hr < 24; hr++, slice++) {
			if (!ex_mine(slice) || ex_expired()) {
				continue;
			}
			for (int s = hr * 3600; s < (hr + 1) * 3600; s++) {
				++*c_states;
				judge_epoch(bday_rd(bd), s, 0);
			}
			++*c_traces;
		}
	}
	/* DIFF: slice = (representation, first day) */
	for (int r = 0; r < NDIFFREP; r++) {
		for (int ia = 0; ia < NDDAY; ia++, slice++) {
			if (!ex_mine(slice) || ex_expired()) {
				continue;
			}
			for (int ta = 0; ta < 7; ta++) {
				++*c_states;
				for (int ib = 0; ib < NDDAY; ib++) {
					for (int tb = 0; tb < 7; tb++) {
						judge_diff(diff_reps[r], rc_rd(ddays[ia][0], ddays[ia][1], ddays[ia][2]), t7[ta],
							   rc_rd(ddays[ib][0], ddays[ib][1], ddays[ib][2]), t7[tb], 0);
					}
				}
			}
			++*c_traces;
			ex_sample("DIFF %s-held: %04d-%02d-%02d x 7 times against 40 days x 7 times", held_name[diff_reps[r]],
				  ddays[ia][0], ddays[ia][1], ddays[ia][2]);
		}
	}
	/* BIND: the watchdog timer is switched off first (an interrupted read() would cut a comparison short) */
	{
		int nb = ex.thorough ? NBIND : NBIND_QUICK;
		struct itimerval zt = {{0, 0}, {0, 0}};
		setitimer(ITIMER_REAL, &zt, NULL);
		setitimer(ITIMER_VIRTUAL, &zt, NULL);
		for (int k = 0; k < nb; k++, slice++) {
			if (ex_mine(slice) && !ex_expired() && binds[k].bday < NBDAY) {
				do_bind(k);
			}
		}
	}
	return ex_finish();
}
