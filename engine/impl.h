/* impl.h -- the implementation under test, as the tools see it */
#ifndef VERIF_IMPL_H
#define VERIF_IMPL_H
#if defined HAVE_CONFIG_H
# include "config.h"
#endif
#include <stdio.h>
#include <stdlib.h>
#include <stdint.h>
#include <string.h>
#include <sys/time.h>
#include <time.h>
#include "dt-core.h"
#include "date-core.h"
#include "time-core.h"
#include "dt-core-tz-glue.h"
#include "tzraw.h"
#include "dt-locale.h"

/* text helpers shared by explorers */
static inline int
vf_all_digits(const char *s)
{
	if (*s == '\0') {
		return 0;
	}
	for (; *s; s++) {
		if (*s < '0' || *s > '9') {
			return 0;
		}
	}
	return 1;
}

/* boring roman numerals */
static void
vf_roman(char *buf, int n)
{
	static const int v[] = {1000, 900, 500, 400, 100, 90, 50, 40, 10, 9, 5, 4, 1};
	static const char *const s[] = {"M", "CM", "D", "CD", "C", "XC", "L", "XL", "X", "IX", "V", "IV", "I"};
	*buf = '\0';
	for (int i = 0; i < 13; i++) {
		while (n >= v[i]) {
			strcat(buf, s[i]);
			n -= v[i];
		}
	}
}

static const char*
vf_ordsuf(int n)
{
	int t = n % 100;
	if (t >= 11 && t <= 13) {
		return "th";
	}
	switch (n % 10) {
	case 1: return "st";
	case 2: return "nd";
	case 3: return "rd";
	default: return "th";
	}
}

#endif
