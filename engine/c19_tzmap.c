/* c19_tzmap.c -- C19, zone maps: for every key of a zone map source the compiled map
 * returns the zone it was mapped to, an absent key is reported as absent, and opening /
 * looking up in ANY byte string as a compiled map stays inside the file image.
 *
 * lib/tzmap.c is included with -DSTANDALONE (the repository's own compiler, cmd_cc, is
 * reached through its main(), renamed) and with mmap replaced by an exact-size heap copy.
 * Model state = one key of one source.  Sources: every sorted set of <= K keys out of
 * {A AA AAAAA AAAAAAAA AAAAAAAAAAAA AAAAAAAAB AAB AB B BA XETR} x zone names from {X XY Y/Z Europe/Berlin} in every assignment.
 * Per source: compile (forked child), then
 *   functional: look up every key of the universe + "" + prefixes/extensions/outsiders in the
 *               compiled image: present key -> exactly its zone string; absent key -> NULL
 *   faults:     the image truncated at every length and its `off' field set to each of
 *               {0,1,n-1,n+1,255,256,65536,2^31-1,2^32-1}: tzm_open + all lookups under ASan.
 * Every case runs in a forked child (c19_common.h). */
#if defined HAVE_CONFIG_H
# include "config.h"
#endif
#include <stdio.h>
#include <stdlib.h>
#include <stdint.h>
#include <string.h>
#include <unistd.h>
#include <fcntl.h>
#include <errno.h>
#include <stdarg.h>
#include <stdbool.h>
#include <stddef.h>
#include <sys/stat.h>
#include <sys/mman.h>

static void*
verif_mmap(void *addr, size_t len, int prot, int flags, int fd, off_t off)
{
	unsigned char *p = malloc(len ? len : 1);
	size_t got = 0;
	(void)addr, (void)prot, (void)flags;
	while (p && got < len) {
		ssize_t n = pread(fd, p + got, len - got, off + (off_t)got);
		if (n <= 0) {
			break;
		}
		got += (size_t)n;
	}
	if (p == NULL || got < len) {
		free(p);
		return MAP_FAILED;
	}
	return p;
}
static int
verif_munmap(void *p, size_t len)
{
	(void)len;
	free(p);
	return 0;
}
#define mmap	verif_mmap
#define munmap	verif_munmap
#define main	tzmap_main
#if !defined STANDALONE
# define STANDALONE
#endif
#include "tzmap.c"
#undef main
#undef mmap
#undef munmap

#include "explore.h"
#include "c19_common.h"

#define NKEYS	11
/* ascending; short keys with prefix relations, and keys of 5, 8, 9 and 12 bytes (2, 2, 3 and 3 words of the record) */
static const char *const keys[NKEYS] = {"A", "AA", "AAAAA", "AAAAAAAA", "AAAAAAAAAAAA", "AAAAAAAAB", "AAB", "AB", "B", "BA", "XETR"};
#define NZONES	4
static const char *const zones[NZONES] = {"X", "XY", "Y/Z", "Europe/Berlin"};
#define NLOOK	31
static const char *const looks[NLOOK] = {
	"A", "AA", "AAAAA", "AAAAAAAA", "AAAAAAAAAAAA", "AAAAAAAAB", "AAB", "AB", "B", "BA", "XETR",
	"", "AAA", "AABA", "ABA", "BAA", "X", "XET", "XETRA", "XETS", "Z", "0", "a",
	/* absent keys around the long ones: prefixes (one word, inside the second word), extensions, same first word(s), greater */
	"AAAA", "AAAAAA", "AAAAAAA", "AAAAAAAAA", "AAAAAAAAC", "AAAAB", "AAAAAAAAAAAAA", "C",
};

/* the source in flight */
static int src_nk;
static int src_key[4], src_zone[4];
static uint8_t *cimg;		/* compiled image */
static size_t clen;
static char srcpath[4300], outpath[4300], imgpath[4300];
static int faults_p;
static int g_verbose;

/* all sources with exactly NK keys: index -> (subset, assignment) */
static long
nsources(int nk)
{
	static const long choose[5] = {1, 11, 55, 165, 330};
	long a = 1;
	for (int i = 0; i < nk; i++) {
		a *= NZONES;
	}
	return choose[nk] * a;
}

static void
mk_source(int nk, long idx)
{
	long a = 1, sub, asg;
	int k = 0;
	for (int i = 0; i < nk; i++) {
		a *= NZONES;
	}
	sub = idx / a;
	asg = idx % a;
	src_nk = nk;
	/* the SUB-th nk-subset of 7 in lexicographic order of index vectors */
	for (int m = 0; m < (1 << NKEYS); m++) {
		if (__builtin_popcount((unsigned)m) != nk) {
			continue;
		}
		if (sub-- == 0) {
			for (int b = 0; b < NKEYS; b++) {
				if (m & (1 << b)) {
					src_key[k++] = b;
				}
			}
			break;
		}
	}
	for (int i = nk - 1; i >= 0; i--) {
		src_zone[i] = (int)(asg % NZONES);
		asg /= NZONES;
	}
}

static void
source_text(char *buf, size_t bsz)
{
	size_t n = 0;
	buf[0] = '\0';
	for (int i = 0; i < src_nk && n < bsz; i++) {
		n += (size_t)snprintf(buf + n, bsz - n, "%s\t%s\n", keys[src_key[i]], zones[src_zone[i]]);
	}
}

static void
source_oneline(char *buf, size_t bsz)
{
	size_t n = 0;
	buf[0] = '\0';
	for (int i = 0; i < src_nk && n < bsz; i++) {
		n += (size_t)snprintf(buf + n, bsz - n, "%s%s->%s", i ? " " : "", keys[src_key[i]], zones[src_zone[i]]);
	}
	if (src_nk == 0) {
		snprintf(buf, bsz, "(no lines)");
	}
}

/* expected zone of lookup key Q, NULL if absent */
static const char*
expected(const char *q)
{
	for (int i = 0; i < src_nk; i++) {
		if (!strcmp(q, keys[src_key[i]])) {
			return zones[src_zone[i]];
		}
	}
	return NULL;
}

static const char*
absent_relation(const char *q)
{
	size_t ql = strlen(q);
	if (ql == 0) {
		return "empty";
	}
	for (int i = 0; i < src_nk; i++) {
		const char *s = keys[src_key[i]];
		if (strlen(s) > ql && !strncmp(s, q, ql)) {
			return "prefix-of-a-present-key";
		}
	}
	for (int i = 0; i < src_nk; i++) {
		const char *s = keys[src_key[i]];
		if (strlen(s) < ql && !strncmp(s, q, strlen(s))) {
			return "extension-of-a-present-key";
		}
	}
	return "unrelated";
}

/* is the zone of source line I a proper prefix of a zone that entered the pool earlier? */
static int
zone_prefix_of_earlier(const char *z)
{
	for (int i = 0; i < src_nk; i++) {
		const char *e = zones[src_zone[i]];
		if (!strcmp(e, z)) {
			return 0;	/* z itself is in the pool from here on */
		}
		if (strlen(e) > strlen(z) && !strncmp(e, z, strlen(z))) {
			return 1;
		}
	}
	return 0;
}

enum { PH_COMPILE, PH_OPEN, PH_FIND, PH_CLOSE, PH_SHOW, PH_CHECK };
static const char *const ph_name[] = {"tzmap-cc", "tzm_open", "tzm_find", "tzm_close", "tzmap-show", "tzmap-check"};

/* `tzmap show -f IMG' (dump of all records) and `tzmap check IMG' walk the records themselves;
 * run them with stdout/stderr on /dev/null; returns 1 if the run did not return */
static int
walk_tool(int check, const char *img)
{
	char *av_show[] = {"tzmap", "show", "-f", (char*)img, NULL};
	char *av_check[] = {"tzmap", "check", (char*)img, NULL};
	static int nullfd = -1;
	int so, se, rc;

	if (nullfd < 0) {
		nullfd = open("/dev/null", O_WRONLY);
	}
	fflush(stdout);
	fflush(stderr);
	so = dup(1);
	se = dup(2);
	dup2(nullfd, 1);
	dup2(nullfd, 2);
	EX_GUARD_BEGIN(rc);
	optind = 0;
	(void)(check ? tzmap_main(3, av_check) : tzmap_main(4, av_show));
	EX_GUARD_END;
	fflush(stdout);
	fflush(stderr);
	dup2(so, 1);
	dup2(se, 2);
	close(so);
	close(se);
	return rc;
}

/* ---- case 0 of a source: compile ---- */
static void
compile_case(long idx)
{
	char *argv[] = {"tzmap", "cc", "-o", outpath, srcpath, NULL};
	(void)idx;
	c19->phase = PH_COMPILE;
	optind = 0;
	if (tzmap_main(5, argv) != 0) {
		_exit(3);
	}
}

static void
compile_crashed(long idx, int how, int sig, const char *report)
{
	char key[200], line[256];
	(void)idx;
	source_oneline(line, sizeof(line));
	snprintf(key, sizeof(key), "tzmap compile %s%s%d nkeys=%d", how == C19_ASAN ? "asan:" : how == C19_SIGNAL ? "fatal-signal-" : "exit-",
		 how == C19_ASAN ? report : "", how == C19_ASAN ? 0 : sig, src_nk);
	{
		char cas[128];
		long code = 0;
		for (int i = 0; i < src_nk; i++) {
			code = code * (NKEYS * 4) + src_key[i] * 4 + src_zone[i];
		}
		snprintf(cas, sizeof(cas), "%d %ld -1", src_nk, code);
		ex_viol(key, src_nk, cas, NULL, "tzmap cc on the source [%s] ends abnormally (%s)", line, how == C19_ASAN ? report : "signal/exit");
	}
}

/* ---- image variants ---- */
static long nvariants;		/* 0 = pristine; 1..clen+1 truncations (len = v-1); then 9 off values */
static uint8_t *vimg;

static uint32_t
off_value(int vi, uint32_t n)
{
	switch (vi) {
	case 0: return 0;
	case 1: return 1;
	case 2: return n - 1U;
	case 3: return n + 1U;
	case 4: return 255;
	case 5: return 256;
	case 6: return 65536;
	case 7: return 0x7fffffffU;
	default: return 0xffffffffU;
	}
}

static size_t
mk_variant(long v, char *what, size_t wsz, char *kind, size_t ksz, double *ord)
{
	size_t len = clen;
	free(vimg);
	if (v == 0) {
		snprintf(what, wsz, "pristine image (%zu bytes)", clen);
		snprintf(kind, ksz, "pristine");
		*ord = 0;
	} else if (v <= (long)clen) {
		len = (size_t)(v - 1);
		snprintf(what, wsz, "truncated to %zu of %zu bytes", len, clen);
		snprintf(kind, ksz, "truncation");
		*ord = (double)len;
	} else {
		int vi = (int)(v - (long)clen - 1);
		uint32_t old = ((uint32_t)cimg[4] << 24) | ((uint32_t)cimg[5] << 16) | ((uint32_t)cimg[6] << 8) | cimg[7];
		uint32_t nv = off_value(vi, old);
		vimg = malloc(clen);
		memcpy(vimg, cimg, clen);
		vimg[4] = (uint8_t)(nv >> 24);
		vimg[5] = (uint8_t)(nv >> 16);
		vimg[6] = (uint8_t)(nv >> 8);
		vimg[7] = (uint8_t)nv;
		snprintf(what, wsz, "`off' set to %u (was %u)", nv, old);
		snprintf(kind, ksz, "off-field");
		*ord = (double)nv;
		return len;
	}
	vimg = malloc(len ? len : 1);
	memcpy(vimg, cimg, len);
	return len;
}

static tzmap_t g_m;
static const char *g_res;
/* lookups that did not return on the well-formed image of the source in flight (shared with the children) */
static volatile uint8_t *pristine_hang;

static void
case_string(long v, char *cas, size_t csz)
{
	long code = 0;
	for (int i = 0; i < src_nk; i++) {
		code = code * (NKEYS * 4) + src_key[i] * 4 + src_zone[i];
	}
	snprintf(cas, csz, "%d %ld %ld", src_nk, code, v);
}

static void
variant_case(long v)
{
	char what[128], kind[32], line[256], key[224], cas[128];
	double ord;
	size_t len = mk_variant(v, what, sizeof(what), kind, sizeof(kind), &ord);
	int fd, rc;
	C19_CTR(c_img, "map_images");
	C19_CTR(c_opened, "map_images_that_open");
	C19_CTR(c_eval, "evaluations");
	C19_CTR(c_hang, "lookups_in_corrupted_maps_that_do_not_return(counted, not reported)");
	C19_CTR(c_present, "present_key_lookups");
	C19_CTR(c_absent, "absent_key_lookups");

	/* the image as a file */
	if ((fd = open(imgpath, O_WRONLY | O_CREAT | O_TRUNC, 0600)) < 0 || write(fd, vimg, len) != (ssize_t)len) {
		_exit(3);
	}
	close(fd);
	C19_INC(c_img);
	C19_INC(c_eval);
	case_string(v, cas, sizeof(cas));
	source_oneline(line, sizeof(line));
	c19->phase = PH_OPEN;
	g_m = tzm_open(imgpath);
	ex_outcome(ex_hash_mix((uint64_t)(g_m != NULL), (uint64_t)v));
	if (g_m == NULL) {
		if (v == 0) {
			snprintf(key, sizeof(key), "tzmap open pristine-image-refused nkeys=%d", src_nk);
			c19_viol(key, src_nk, cas, "the map compiled from [%s] (%zu bytes) is refused by tzm_open", line, clen);
		}
		if (g_verbose) {
			printf("  %s: tzm_open refuses\n", what);
		}
		return;
	}
	C19_INC(c_opened);
	for (int li = 0; li < NLOOK; li++) {
		const char *q = looks[li], *e = expected(q);
		C19_CTR(c_skiph, "lookups_not_repeated_on_corrupted_images(do not return on the well-formed image)");
		if (v != 0 && pristine_hang[li]) {
			/* reported once, on the well-formed image */
			C19_INC(c_skiph);
			continue;
		}
		C19_INC(c_eval);
		c19->phase = PH_FIND;
		g_res = NULL;
		EX_GUARD_BEGIN(rc);
		g_res = tzm_find(g_m, q);
		EX_GUARD_END;
		if (rc) {
			if (v == 0) {
				int longkey = 0;
				C19_CTR(c_conf, "hangs_confirmed_with_long_limit");
				C19_CTR(c_phang, "lookups_in_wellformed_maps_that_do_not_return");
				for (int i = 0; i < src_nk; i++) {
					longkey |= strlen(keys[src_key[i]]) > 4;
				}
				if (pristine_hang[2048] == 0) {
					/* the first of this worker: once more with a limit of 1 s of CPU time */
					int save = zc_wd_limit;
					zc_wd_limit = 250;
					EX_GUARD_BEGIN(rc);
					g_res = tzm_find(g_m, q);
					EX_GUARD_END;
					zc_wd_limit = save;
					if (!rc) {
						fprintf(stderr, "c19_tzmap: a lookup reported as not returning returned within 1 s\n");
						_exit(3);
					}
					C19_INC(c_conf);
					pristine_hang[2048] = 1;	/* survives the per-source reset and the folding of the counters */
				}
				C19_INC(c_phang);
				pristine_hang[li] = 1;
				snprintf(key, sizeof(key), "tzmap lookup does-not-return lookup=%s%s%s source-has-key-over-4-bytes=%d nkeys=%d", e ? "present" : "absent",
					 e ? "" : " ", e ? "" : absent_relation(q), longkey, src_nk);
				c19_viol(key, src_nk, cas, "map of [%s] (well-formed, %zu bytes): tzm_find('%s') does not return", line, clen, q);
				if (g_verbose) {
					printf("  FAIL tzm_find('%s') does not return\n", q);
				}
			} else {
				/* reading: on a corrupted image a search that never ends neither leaves the image nor crashes; counted,
				 * and the variant is left (every further lookup would cost another watchdog period) */
				C19_INC(c_hang);
				break;
			}
			continue;
		}
		if (v != 0) {
			continue;
		}
		/* functional oracle on the pristine image */
		ex_outcome(ex_hash_mix(ex_hash(g_res ? g_res : "", g_res ? strnlen(g_res, 32) : 0), (uint64_t)li));
		if (e != NULL) {
			C19_INC(c_present);
			if (g_res == NULL) {
				snprintf(key, sizeof(key), "tzmap lookup present-key-not-found key='%s' nkeys=%d", q, src_nk);
				c19_viol(key, src_nk, cas, "map of [%s]: tzm_find('%s') = NULL, the source maps it to '%s'", line, q, e);
			} else if (strcmp(g_res, e)) {
				snprintf(key, sizeof(key), "tzmap lookup present-key-wrong-zone key='%s' zone-is-prefix-of-an-earlier-zone=%d nkeys=%d", q,
					 zone_prefix_of_earlier(e), src_nk);
				c19_viol(key, src_nk, cas, "map of [%s]: tzm_find('%s') = '%.40s', the source maps it to '%s'", line, q, g_res, e);
			} else if (g_verbose) {
				printf("  ok tzm_find('%s') = '%s'\n", q, g_res);
			}
		} else {
			C19_INC(c_absent);
			if (g_res != NULL) {
				snprintf(key, sizeof(key), "tzmap lookup absent-key-found key='%s' (%s) nkeys=%d", q, absent_relation(q), src_nk);
				c19_viol(key, src_nk, cas, "map of [%s]: tzm_find('%s') = '%.40s' although the key is not in the source", line, q, g_res);
			} else if (g_verbose) {
				printf("  ok tzm_find('%s') = NULL (absent)\n", q);
			}
		}
	}
	c19->phase = PH_CLOSE;
	tzm_close(g_m);
	g_m = NULL;
	/* the tool's own walks over the records of the same image */
	for (int t = 0; t < 2; t++) {
		C19_CTR(c_walk, "tzmap_show_and_check_runs");
		C19_CTR(c_whang, "show_check_on_corrupted_maps_that_do_not_return(counted, not reported)");
		C19_INC(c_eval);
		C19_INC(c_walk);
		c19->phase = t ? PH_CHECK : PH_SHOW;
		if (walk_tool(t, imgpath)) {
			if (v == 0) {
				snprintf(key, sizeof(key), "tzmap %s does-not-return on a well-formed map nkeys=%d", t ? "check" : "show", src_nk);
				c19_viol(key, src_nk, cas, "map of [%s]: tzmap %s does not return", line, t ? "check" : "show -f");
			} else {
				C19_INC(c_whang);
			}
		} else if (g_verbose) {
			printf("  ok tzmap %s: no report\n", t ? "check" : "show -f");
		}
	}
}

static void
variant_crashed(long v, int how, int sig, const char *report)
{
	char what[128], kind[32], key[224], cas[128], line[256];
	double ord;
	mk_variant(v, what, sizeof(what), kind, sizeof(kind), &ord);
	case_string(v, cas, sizeof(cas));
	source_oneline(line, sizeof(line));
	if (how == C19_ASAN) {
		snprintf(key, sizeof(key), "tzmap %s asan:%s in=%s nkeys=%d", kind, report, ph_name[c19->phase], src_nk);
	} else {
		snprintf(key, sizeof(key), "tzmap %s %s-%d in=%s nkeys=%d", kind, how == C19_SIGNAL ? "fatal-signal" : "child-exit", sig, ph_name[c19->phase], src_nk);
	}
	ex_viol(key, ord, cas, NULL, "map of [%s], %s: %s during %s", line, what, how == C19_ASAN ? report : how == C19_SIGNAL ? "fatal signal" : "child exited",
		ph_name[c19->phase]);
	if (g_verbose) {
		printf("  FAIL [%s] %s\n", key, what);
	}
}

/* compile the source in flight; 0 = ok */
static int
compile_source(void)
{
	char text[512];
	FILE *f;
	int n0 = ex.nviol;
	uint64_t d0;
	EX_CTR(c_died, "cases_that_ended_their_child");

	source_text(text, sizeof(text));
	if ((f = fopen(srcpath, "w")) == NULL) {
		perror(srcpath);
		exit(3);
	}
	fputs(text, f);
	fclose(f);
	unlink(outpath);
	d0 = *c_died;
	c19_batch(1, compile_case, compile_crashed);
	if (*c_died != d0 || ex.nviol != n0) {
		return -1;
	}
	free(cimg);
	cimg = NULL;
	{
		FILE *g = fopen(outpath, "rb");
		long sz;
		if (g == NULL) {
			return -1;
		}
		fseek(g, 0, SEEK_END);
		sz = ftell(g);
		fseek(g, 0, SEEK_SET);
		cimg = malloc((size_t)sz + 1);
		clen = fread(cimg, 1, (size_t)sz, g);
		fclose(g);
	}
	return 0;
}

int
main(int argc, char *argv[])
{
	EX_CTR(c_states, "states");
	EX_CTR(c_traces, "traces");
	EX_CTR(c_nontriv, "nontrivial");
	EX_CTR(c_srcs, "map_sources_compiled");
	EX_CTR(c_nocomp, "map_sources_the_compiler_failed_on");
	const char *rundir = getenv("VERIF_RUNDIR");
	int kfun, kflt;
	uint64_t slice = 0;

	ex_init(argc, argv);
	c19_init();
	zc_wd_init();
	c19_ctr_id("map_images");
	c19_ctr_id("map_images_that_open");
	c19_ctr_id("evaluations");
	c19_ctr_id("lookups_in_corrupted_maps_that_do_not_return(counted, not reported)");
	c19_ctr_id("present_key_lookups");
	c19_ctr_id("absent_key_lookups");
	c19_ctr_id("tzmap_show_and_check_runs");
	c19_ctr_id("show_check_on_corrupted_maps_that_do_not_return(counted, not reported)");
	c19_ctr_id("hangs_confirmed_with_long_limit");
	c19_ctr_id("lookups_in_wellformed_maps_that_do_not_return");
	c19_ctr_id("lookups_not_repeated_on_corrupted_images(do not return on the well-formed image)");
	pristine_hang = mmap(NULL, 4096, PROT_READ | PROT_WRITE, MAP_SHARED | MAP_ANONYMOUS, -1, 0);
	if (pristine_hang == MAP_FAILED) {
		return 3;
	}
	/* a search in a map of a few dozen bytes takes well under a microsecond: 4..8 ms of CPU time without returning is a hang */
	zc_wd_limit = 1;
	if (rundir == NULL) {
		rundir = "/tmp";
	}
	snprintf(srcpath, sizeof(srcpath), "%s/c19map.%d.src", rundir, (int)getpid());
	snprintf(outpath, sizeof(outpath), "%s/c19map.%d.tzm", rundir, (int)getpid());
	snprintf(imgpath, sizeof(imgpath), "%s/c19map.%d.img", rundir, (int)getpid());

	if (ex.cas) {
		int nk, n0;
		long code, v;
		if (sscanf(ex.cas, "%d %ld %ld", &nk, &code, &v) != 3 || nk < 0 || nk > 4) {
			return ex_replay_result(1, "bad case '%s'", ex.cas);
		}
		src_nk = nk;
		for (int i = nk - 1; i >= 0; i--) {
			src_key[i] = (int)(code % (NKEYS * 4)) / 4;
			src_zone[i] = (int)(code % 4);
			code /= NKEYS * 4;
		}
		g_verbose = 1;
		n0 = ex.nviol;
		{
			char line[256];
			source_oneline(line, sizeof(line));
			printf("  source: [%s]\n", line);
		}
		if (compile_source() < 0) {
			unlink(srcpath);
			unlink(outpath);
			return ex_replay_result(1, "the compiler fails on the source");
		}
		if (v >= 0) {
			static long the_v;
			the_v = v;
			nvariants = (long)clen + 1 + 9;
			/* one variant, in a child of its own: batch over [v, v+1) by shifting */
			{
				pid_t pid;
				int st = 0;
				c19->cur = v;
				fflush(stdout);
				if ((pid = fork()) == 0) {
					zc_wd_init();
					signal(SIGSEGV, SIG_DFL);
					signal(SIGBUS, SIG_DFL);
					signal(SIGFPE, SIG_DFL);
					signal(SIGABRT, SIG_DFL);
					if (__asan_set_error_report_callback) {
						__asan_set_error_report_callback(c19_asan_cb);
					}
					zc_wd_limit = 250;
					variant_case(the_v);
					fflush(stdout);
					_exit(0);
				}
				while (waitpid(pid, &st, 0) < 0 && errno == EINTR) {
					;
				}
				c19_merge_viols();
				if (WIFEXITED(st) && WEXITSTATUS(st) == 77 && c19->asan) {
					variant_crashed(v, C19_ASAN, 0, c19->report);
				} else if (WIFSIGNALED(st)) {
					variant_crashed(v, C19_SIGNAL, WTERMSIG(st), "");
				} else if (!(WIFEXITED(st) && WEXITSTATUS(st) == 0)) {
					variant_crashed(v, C19_EXIT, WEXITSTATUS(st), "");
				}
			}
		}
		unlink(srcpath);
		unlink(outpath);
		unlink(imgpath);
		for (int i = n0; i < ex.nviol; i++) {
			printf("  %s: %s\n", ex.viol[i].key, ex.viol[i].detail);
		}
		return ex_replay_result(ex.nviol > n0, "%s", ex.cas);
	}

	kfun = ex.thorough ? 4 : 3;
	kflt = ex.thorough ? 3 : 2;
	ex_meta("rule", "zone maps: every sorted set of <= %d keys out of {A AA AAAAA AAAAAAAA AAAAAAAAAAAA AAAAAAAAB AAB AB B BA XETR} x zones from {X XY Y/Z Europe/Berlin} in every assignment, compiled by the "
		"repository's own compiler (lib/tzmap.c cmd_cc through its main(), in a forked child); in the compiled image %d lookups (all 7 keys, \"\", prefixes, extensions, "
		"outsiders): present key -> exactly its zone string, absent key -> NULL; for sources of <= %d keys additionally the image truncated at every length and its off field "
		"set to {0,1,n-1,n+1,255,256,65536,2^31-1,2^32-1}: tzm_open + all lookups, then `tzmap show -f IMAGE' (dump) and `tzmap check IMAGE' through the tool's main(), with no AddressSanitizer report and no fatal signal "
		"(image = exact-size heap block). "
		"A lookup that does not return in a well-formed compiled map is a violation (the key is neither found nor reported absent); in a corrupted map it is counted only "
		"(it neither leaves the image nor crashes) and ends that image's lookups. non-trivial = lookups of absent keys that are prefixes/extensions of present ones, and of present keys "
		"whose zone name is a proper prefix of a zone name compiled earlier", kfun, NLOOK, kflt);
	ex_meta("bound", "%s: functional oracle for all sources of <= %d keys, fault images for all sources of <= %d keys; sources of exactly %d keys (functional) resp. %d keys (faults) only with every key "
		"mapped to the first zone", ex.thorough ? "thorough" : "quick", kfun, kflt, kfun, kflt);

	for (int nk = 0; nk <= kfun && !ex_expired(); nk++) {
		long ns = nsources(nk);
		for (long si = 0; si < ns && !ex_expired(); si++) {
			mk_source(nk, si);
			{
				/* the largest sources only with all keys on the first zone (the records' layout depends on the keys) */
				int zsum = 0;
				for (int i = 0; i < nk; i++) {
					zsum += src_zone[i];
				}
				if (nk == kfun && zsum) {
					continue;
				}
				faults_p = nk < kflt || (nk == kflt && zsum == 0);
			}
			if (!ex_mine(slice++)) {
				continue;
			}
			if (compile_source() < 0) {
				++*c_nocomp;
				continue;
			}
			++*c_srcs;
			nvariants = faults_p ? (long)clen + 1 + 9 : 1;
			memset((void*)pristine_hang, 0, NLOOK);
			c19_batch(nvariants, variant_case, variant_crashed);
			*c_states += (uint64_t)src_nk + 1;
			++*c_traces;
			for (int li = 0; li < NLOOK; li++) {
				const char *e = expected(looks[li]);
				if ((e && zone_prefix_of_earlier(e)) || (!e && strcmp(absent_relation(looks[li]), "unrelated"))) {
					++*c_nontriv;
				}
			}
			if (ex_want_sample()) {
				char line[256];
				source_oneline(line, sizeof(line));
				ex_sample("source [%s] -> %zu-byte map; %d lookups; %ld image variants", line, clen, NLOOK, nvariants);
			}
		}
	}
	unlink(srcpath);
	unlink(outpath);
	unlink(imgpath);
	return ex_finish();
}
