/* c10_lib.c -- C10, library level: the parsers and formatters are memory-safe and
 * total on arbitrary formats, inputs, durations and output buffer sizes.
 *
 * Enumerated to exhaustion (no sampling), per tier length bound L:
 *  mode P  every byte string of length <= L over Sf = {% Y d b O _ t h s - a Z}
 *          (+ the calendar names) as FORMAT x input texts x {dt_strpdt, dt_strpd, dt_strpt};
 *          texts = the text the formatter itself prints for that format and all of
 *          its truncations, plus a fixed list (control byte, 300 digits, ...);
 *  mode I  every byte string of length <= L over Si = {2 0 1 - : T W b SPC @ + \x01}
 *          as INPUT x (format-less parser + a list of formats) x the three parsers,
 *          and as duration for dt_strpdtdur/dt_strpddur; the same over the duration
 *          alphabet Sd = {1 9 0 - + d m o w r s /};
 *  mode F  every format string as above x values (one per held representation) x
 *          EVERY output buffer size 0..40 for dt_strfdt/dt_strfd/dt_strft and x
 *          durations for dt_strfdtdur/dt_strfddur.
 * Oracles: see c10_common.h (ASan checks with exact-size placement, signals,
 * watchdog) plus: return value <= bsz; the answer of a parser does not depend on
 * the bytes behind the terminators of format and input (two different fills);
 * the end pointer stays inside the text; formatter output does not depend on the
 * bytes behind the format's terminator. */
#include "impl.h"
#include "explore.h"
#include "c10_tok.h"

/* formats that are names, appended to the enumeration of Sf strings */
static const char *const named_fmt[] = {
	"ymd", "ymcw", "ywd", "yd", "bizda", "daisy", "sexy", "bizsi", "jdn", "julian", "ldn", "lilian",
	"mdn", "matlab", "hijri", "ummulqura", "hms", "YMD", "x",
};
#define NNAMED	((uint64_t)(sizeof(named_fmt) / sizeof(*named_fmt)))

/* ---- functions under test ---- */
enum { P_DT, P_D, P_T, NPARSER };
static const char *const parser_name[] = {"dt_strpdt", "dt_strpd", "dt_strpt"};
enum { F_DT, F_D, F_T, F_DTDUR, F_DDUR, NFORMATTER };
static const char *const formatter_name[] = {"dt_strfdt", "dt_strfd", "dt_strft", "dt_strfdtdur", "dt_strfddur"};
enum { D_DT, D_D, NDURP };
static const char *const durp_name[] = {"dt_strpdtdur", "dt_strpddur"};

/* values, one per held representation */
#define NVAL	15
static struct dt_dt_s vals[NVAL];
static const char *const val_name[NVAL] = {
	"ymd date 2012-03-04", "ymd+hms 2012-03-04T12:34:56", "ymcw date 2012-03-01-07", "ywd date 2012-W09-7",
	"yd date 2012-064", "daisy date", "bizda date 2012-03-02b", "epoch @1330864496", "time 12:34:56",
	"ldn date 156963", "unknown (all zero)", "ymd 0000-00-00", "ymd+hms 4095-12-31T23:59:59",
	"ymd+hms with zone 2012-03-04T12:34:56+05:30", "ymd date 1800-01-01",
};
/* which values make sense for dt_strfd (date part) and dt_strft (time part) */
static const int val_for_d[NVAL] = {1, 1, 1, 1, 1, 1, 1, 0, 0, 1, 1, 1, 1, 0, 1};
static const int val_for_t[NVAL] = {0, 1, 0, 0, 0, 0, 0, 0, 1, 0, 1, 0, 1, 0, 0};

#define NDTDUR	16
static struct dt_dtdur_s dtdurs[NDTDUR];
static const char *dtdur_name[NDTDUR];
#define NDDUR	14
static struct dt_ddur_s ddurs[NDDUR];
static const char *ddur_name[NDDUR];

static void
init_values(void)
{
	struct dt_dt_s base = dt_strpdt("2012-03-04T12:00:00", NULL, NULL);
	struct dt_dt_s a, b;
	int k;

	dt_set_base(base);
	vals[0] = dt_strpdt("2012-03-04", NULL, NULL);
	vals[1] = dt_strpdt("2012-03-04T12:34:56", NULL, NULL);
	vals[2] = dt_strpdt("2012-03-01-07", NULL, NULL);
	vals[3] = dt_strpdt("2012-W09-7", NULL, NULL);
	vals[4] = dt_strpdt("2012-064", NULL, NULL);
	vals[5] = dt_dtconv((dt_dttyp_t)DT_DAISY, vals[0]);
	vals[6] = dt_strpdt("2012-03-02b", NULL, NULL);
	vals[7] = dt_strpdt("@1330864496", NULL, NULL);
	vals[8] = dt_strpdt("12:34:56", NULL, NULL);
	vals[9] = dt_strpdt("156963", "ldn", NULL);
	memset(&vals[10], 0, sizeof(vals[10]));
	memset(&vals[11], 0, sizeof(vals[11]));
	dt_make_d_only(&vals[11], DT_YMD);
	vals[12] = dt_strpdt("4095-12-31T23:59:59", NULL, NULL);
	vals[13] = dt_strpdt("2012-03-04T12:34:56+05:30", NULL, NULL);
	vals[14] = dt_strpdt("1800-01-01", NULL, NULL);
	for (int i = 0; i < NVAL; i++) {
		if (i != 10 && dt_unk_p(vals[i])) {
			fprintf(stderr, "c10_lib: value %d (%s) could not be constructed\n", i, val_name[i]);
			exit(3);
		}
	}
	a = vals[1];
	b = dt_strpdt("2013-05-17T23:01:02", NULL, NULL);
	k = 0;
#define DUR(s)	(dtdur_name[k] = s, dtdurs[k++] = dt_strpdtdur(s, NULL))
	DUR("1d"); DUR("-3w"); DUR("5mo"); DUR("2y"); DUR("7b"); DUR("90s"); DUR("-4h"); DUR("1m"); DUR("100n"); DUR("2147483647d");
#undef DUR
	dtdur_name[k] = "diff as ymd"; dtdurs[k++] = dt_dtdiff((dt_dtdurtyp_t)DT_DURYMD, a, b);
	dtdur_name[k] = "diff as ywd"; dtdurs[k++] = dt_dtdiff((dt_dtdurtyp_t)DT_DURYWD, a, b);
	dtdur_name[k] = "diff as seconds"; dtdurs[k++] = dt_dtdiff(DT_DURS, b, a);
	dtdur_name[k] = "diff as bizda"; dtdurs[k++] = dt_dtdiff((dt_dtdurtyp_t)DT_DURBIZDA, a, b);
	dtdur_name[k] = "diff as yd"; dtdurs[k++] = dt_dtdiff((dt_dtdurtyp_t)DT_DURYD, a, b);
	dtdur_name[k] = "unknown (all zero)"; memset(&dtdurs[k++], 0, sizeof(dtdurs[0]));
	k = 0;
#define DUR(s)	(ddur_name[k] = s, ddurs[k++] = dt_strpddur(s, NULL))
	DUR("1d"); DUR("-3w"); DUR("5m"); DUR("2y"); DUR("7b"); DUR("3q"); DUR("2147483647d"); DUR("-2147483647m");
#undef DUR
	ddur_name[k] = "diff as ymd"; ddurs[k++] = dt_ddiff(DT_DURYMD, a.d, b.d, 0);
	ddur_name[k] = "diff as ymcw"; ddurs[k++] = dt_ddiff(DT_DURYMCW, a.d, b.d, 0);
	ddur_name[k] = "diff as ywd"; ddurs[k++] = dt_ddiff(DT_DURYWD, a.d, b.d, 0);
	ddur_name[k] = "diff as yd"; ddurs[k++] = dt_ddiff(DT_DURYD, a.d, b.d, 0);
	ddur_name[k] = "diff as bizda"; ddurs[k++] = dt_ddiff(DT_DURBIZDA, a.d, b.d, 0);
	ddur_name[k] = "unknown (all zero)"; memset(&ddurs[k++], 0, sizeof(ddurs[0]));
}

/* fills behind the terminators for the differential runs */
static const char FILL_FMT_A[] = "%Y-%m-%dT%H:%M:%S%Z %b %a %dth %s";
static const char FILL_FMT_B[] = "\x01\x02\x03\x01\x02\x03\x01\x02\x03\x01\x02\x03\x01\x02\x03\x01\x02\x03\x01\x02\x03\x01\x02\x03\x01\x02\x03\x01\x02\x03\x01\x02\x03";
static const char FILL_INP_A[] = "2012-03-04T12:34:56+01:00 Mar Sun 4th 1330864496";
static const char FILL_INP_B[] = "\x7f\x7e\x7d\x7f\x7e\x7d\x7f\x7e\x7d\x7f\x7e\x7d\x7f\x7e\x7d\x7f\x7e\x7d\x7f\x7e\x7d\x7f\x7e\x7d\x7f\x7e\x7d\x7f\x7e\x7d\x7f\x7e\x7d\x7f\x7e\x7d\x7f\x7e\x7d\x7f\x7e\x7d\x7f\x7e\x7d\x7f\x7e\x7d";

/* result of one parse */
struct pres {
	unsigned char raw[16];
	long epoff;
	int unk;
};

static int
do_parse(int func, const char *fmt, const char *inp, struct pres *r)
{
	char *ep = NULL;
	int rc;

	memset(r, 0, sizeof(*r));
	XG_BEGIN(rc) {
		switch (func) {
		case P_DT: {
			struct dt_dt_s v = dt_strpdt(inp, fmt, &ep);
			memcpy(r->raw, &v, sizeof(v) < 16 ? sizeof(v) : 16);
			r->unk = dt_unk_p(v);
			break;
		}
		case P_D: {
			struct dt_d_s v = dt_strpd(inp, fmt, &ep);
			memcpy(r->raw, &v, sizeof(v) < 16 ? sizeof(v) : 16);
			r->unk = v.typ == DT_DUNK;
			break;
		}
		case P_T: {
			struct dt_t_s v = dt_strpt(inp, fmt, &ep);
			memcpy(r->raw, &v, sizeof(v) < 16 ? sizeof(v) : 16);
			r->unk = v.typ == DT_TUNK;
			break;
		}
		}
		r->epoff = ep ? (long)(ep - inp) : 0;
	} XG_END;
	return rc;
}

static int
do_durparse(int func, const char *inp, struct pres *r)
{
	char *ep = NULL;
	int rc;

	memset(r, 0, sizeof(*r));
	XG_BEGIN(rc) {
		if (func == D_DT) {
			struct dt_dtdur_s v = dt_strpdtdur(inp, &ep);
			memcpy(r->raw, &v, sizeof(v) < 16 ? sizeof(v) : 16);
			r->unk = v.durtyp == (dt_dtdurtyp_t)DT_DURUNK;
		} else {
			struct dt_ddur_s v = dt_strpddur(inp, &ep);
			memcpy(r->raw, &v, sizeof(v) < 16 ? sizeof(v) : 16);
			r->unk = v.durtyp == DT_DURUNK;
		}
		r->epoff = ep ? (long)(ep - inp) : 0;
	} XG_END;
	return rc;
}

/* how the format enters a key when no specifier is to blame: NULL, a calendar name, or nothing */
static const char*
fmt_class(const char *fmt, size_t flen, char *buf, size_t bsz)
{
	if (fmt == NULL) {
		return " [format NULL]";
	}
	if (flen && fmt[0] != '%') {
		for (size_t i = 0; i < NNAMED; i++) {
			if (!strcasecmp(fmt, named_fmt[i]) && strcmp(named_fmt[i], "x")) {
				snprintf(buf, bsz, " [format \"%s\"]", named_fmt[i]);
				return buf;
			}
		}
	}
	return "";
}
static const char*
sig_where(char *buf, size_t bsz)
{
	/* the function that was executing, except for abort() whose pc is inside libc */
	char site[48], tok[32];
	xt_label_last(tok, sizeof(tok));
	if (xr_sig == SIGALRM) {
		snprintf(buf, bsz, "%s, last specifier %s", xg_signame(xr_sig), tok);
	} else if (xr_sig == SIGABRT) {
		/* raised after the specifier loop (assertions on the collected fields): no specifier to blame */
		snprintf(buf, bsz, "%s", xg_signame(xr_sig));
	} else {
		snprintf(buf, bsz, "%s in %s, last specifier %s", xg_signame(xr_sig), xs_name(xr_sig_pc, site, sizeof(site)), tok);
	}
	return buf;
}

static int replay_verbose;
static int replay_fails;

static void
report(const char *key, double ord, const char *cas, const char *cmd, const char *fmt, ...)
{
	char detail[1024];
	va_list ap;
	va_start(ap, fmt);
	vsnprintf(detail, sizeof(detail), fmt, ap);
	va_end(ap);
	xv_viol(key, ord, cas, cmd, detail);
	if (replay_verbose) {
		printf("  VIOLATION [%s] %s\n", key, detail);
		replay_fails++;
	}
}

/* one parser case.  fmt == NULL: the format-less parser.  Returns nonzero if the process should be replaced. */
static int
parse_case(int func, const char *fmt, size_t flen, const char *inp, size_t ilen, char mode)
{
	EX_CTR(c_eval, "evaluations");
	EX_CTR(c_cases, "parser_cases");
	EX_CTR(c_nontriv, "nontrivial");
	EX_CTR(c_accept, "parser_accepts");
	char key[256], cas[1400], cmd[900], fe[64], ie[700], fh[64], ih[700];
	const char *fn = parser_name[func];
	struct pres a, b, c;
	const char *pf, *pi;
	int rc, bad = 0;
	double ord = mode == 'I' ? (double)ilen : (double)flen;

	if (xb_skip()) {
		return 0;
	}
	++*c_cases;
	xe_esc(fmt ? fmt : "(null)", fmt ? flen : 6, fe, sizeof(fe));
	xe_esc(inp, ilen, ie, sizeof(ie));
	xe_hex(fmt ? fmt : "", fmt ? flen : 0, fh, sizeof(fh));
	xe_hex(inp, ilen, ih, sizeof(ih));
	snprintf(cas, sizeof(cas), "P %d %s %s %c", func, fmt ? fh : "NULL", ih, mode);
	cmd[0] = '\0';
	if (func == P_DT && xe_printable(inp, ilen) && (fmt == NULL || xe_printable(fmt, flen)) && ilen && ilen < 64) {
		if (fmt) {
			snprintf(cmd, sizeof(cmd), "dconv -i '%s' '%s'", fmt, inp);
		} else {
			snprintf(cmd, sizeof(cmd), "dconv '%s'", inp);
		}
	}

	/* A: exact-size placement */
	pf = fmt ? xa_place(&xa_fmt, fmt, flen + 1) : NULL;
	pi = xa_place(&xa_inp, inp, ilen + 1);
	xt_fmt_lo = pf;
	xt_fmt_hi = pf ? pf + flen + 1 : NULL;
	xt_fp = xt_ep = xt_in_fp = xt_in_ep = NULL;
	xr.n = 0;
	xr.total = 0;
	rc = do_parse(func, pf, pi, &a);
	++*c_eval;
	if (rc) {
		char sw[128], fc[48];
		snprintf(key, sizeof(key), "%s: %s%s", fn, sig_where(sw, sizeof(sw)), fmt_class(fmt, flen, fc, sizeof(fc)));
		report(key, ord, cas, *cmd ? cmd : NULL, "%s(\"%s\", %s%s%s): %s", fn, ie, fmt ? "\"" : "", fe, fmt ? "\"" : "", sw);
		return xg_must_restart();
	}
	for (int i = 0; i < xr.n; i++) {
		snprintf(key, sizeof(key), "%s%s: %s in %s, specifier %s", fn, fmt ? "" : " (no format)", xr.r[i].kind, xr.r[i].site,
			 xr.r[i].tok[0] ? xr.r[i].tok : "-");
		report(key, ord, cas, *cmd ? cmd : NULL, "%s(\"%s\", %s%s%s) with format and input in exact-size blocks: %s, distance %ld (in %s, while on specifier %s); result %s",
		       fn, ie, fmt ? "\"" : "", fe, fmt ? "\"" : "", xr.r[i].kind, xr_dist, xr.r[i].site, xr.r[i].tok[0] ? xr.r[i].tok : "-",
		       a.unk ? "unknown" : "a value");
		bad = 1;
	}
	if (a.epoff < 0 || a.epoff > (long)ilen) {
		snprintf(key, sizeof(key), "%s%s: end pointer outside the input text", fn, fmt ? "" : " (no format)");
		report(key, ord, cas, *cmd ? cmd : NULL, "%s(\"%s\", %s%s%s): end pointer at offset %ld of a text of length %zu",
		       fn, ie, fmt ? "\"" : "", fe, fmt ? "\"" : "", a.epoff, ilen);
		bad = 1;
	}
	ex_outcome(ex_hash_mix(ex_hash(a.raw, 16), (uint64_t)(a.epoff * 4 + func)));
	if (!a.unk) {
		++*c_accept;
	}

	/* B, C: same strings followed by two different fills (everything addressable) */
	{
		const char *pfb, *pib;
		struct pres d;
		int rcb, rcc;
		pfb = fmt ? xa_place_fill(&xa_fmt, fmt, flen + 1, FILL_FMT_A, sizeof(FILL_FMT_A)) : NULL;
		pib = xa_place_fill(&xa_inp, inp, ilen + 1, FILL_INP_A, sizeof(FILL_INP_A));
		char tok[32];
		xt_fmt_lo = pfb;
		xt_fmt_hi = pfb ? pfb + flen + 1 : NULL;
		xt_fp = xt_ep = xt_in_fp = xt_in_ep = NULL;
		rcb = do_parse(func, pfb, pib, &b);
		if (xr.n && xr.r[0].tok[0]) {
			/* the exact-size run saw the specifier that left its block */
			snprintf(tok, sizeof(tok), "%s", xr.r[0].tok);
		} else {
			xt_label_last(tok, sizeof(tok));
		}
		if (!rcb) {
			pfb = fmt ? xa_place_fill(&xa_fmt, fmt, flen + 1, FILL_FMT_B, sizeof(FILL_FMT_B)) : NULL;
			pib = xa_place_fill(&xa_inp, inp, ilen + 1, FILL_INP_B, sizeof(FILL_INP_B));
			rcc = do_parse(func, pfb, pib, &c);
		} else {
			rcc = 0;
		}
		*c_eval += 2;
		if (rcb || rcc) {
			char sw[128], fc[48];
			snprintf(key, sizeof(key), "%s: %s%s (with bytes behind the terminators)", fn, sig_where(sw, sizeof(sw)), fmt_class(fmt, flen, fc, sizeof(fc)));
			report(key, ord, cas, *cmd ? cmd : NULL, "%s(\"%s\", \"%s\") followed by fill bytes: %s", fn, ie, fe, sw);
			return xg_must_restart();
		}
		if (memcmp(b.raw, c.raw, 16) || b.epoff != c.epoff) {
			/* which terminator? format fill B with input fill A */
			const char *whose = "input";
			if (fmt) {
				pfb = xa_place_fill(&xa_fmt, fmt, flen + 1, FILL_FMT_B, sizeof(FILL_FMT_B));
				pib = xa_place_fill(&xa_inp, inp, ilen + 1, FILL_INP_A, sizeof(FILL_INP_A));
				if (do_parse(func, pfb, pib, &d)) {
					return xg_must_restart();
				}
				++*c_eval;
				if (memcmp(b.raw, d.raw, 16) || b.epoff != d.epoff) {
					whose = "format";
				}
			}
			snprintf(key, sizeof(key), "%s%s: result depends on the bytes behind the terminator of the %s%s, specifier %s", fn, fmt ? "" : " (no format)",
				 whose, (b.unk != c.unk) ? " (date or not)" : b.unk ? "" : " (which date)", tok);
			report(key, ord, cas, *cmd ? cmd : NULL,
			       "%s(\"%s\", %s%s%s): with '%s...' behind the terminators the result is %s (end offset %ld), with other bytes %s (end offset %ld)",
			       fn, ie, fmt ? "\"" : "", fe, fmt ? "\"" : "", whose[0] == 'f' ? "%Y-%m-%d" : "2012-03-04",
			       b.unk ? "unknown" : "a value", b.epoff, c.unk ? "unknown" : "a value", c.epoff);
			bad = 1;
		}
	}
	if (bad) {
		++*c_nontriv;
	}
	if (replay_verbose) {
		printf("  %s(\"%s\", %s%s%s): %s, end offset %ld, %llu memory reports\n", fn, ie, fmt ? "\"" : "", fe, fmt ? "\"" : "",
		       a.unk ? "unknown" : "a value", a.epoff, (unsigned long long)xr.total);
	}
	if (ex_want_sample()) {
		ex_sample("%s(\"%s\", %s%s%s) -> %s, end offset %ld", fn, ie, fmt ? "\"" : "", fe, fmt ? "\"" : "", a.unk ? "unknown" : "value", a.epoff);
	}
	return 0;
}

static int
dur_case(int func, const char *inp, size_t ilen)
{
	EX_CTR(c_eval, "evaluations");
	EX_CTR(c_cases, "duration_parser_cases");
	EX_CTR(c_nontriv, "nontrivial");
	char key[256], cas[100], cmd[128], ie[64], ih[64];
	const char *fn = durp_name[func];
	struct pres a, b, c;
	const char *pi;
	int rc, bad = 0;

	if (xb_skip()) {
		return 0;
	}
	++*c_cases;
	xe_esc(inp, ilen, ie, sizeof(ie));
	xe_hex(inp, ilen, ih, sizeof(ih));
	snprintf(cas, sizeof(cas), "D %d %s", func, ih);
	cmd[0] = '\0';
	if (xe_printable(inp, ilen) && ilen) {
		snprintf(cmd, sizeof(cmd), "dadd 2012-03-04 -- '%s'", inp);
	}
	pi = xa_place(&xa_inp, inp, ilen + 1);
	xt_fmt_lo = xt_fmt_hi = NULL;
	xt_fp = NULL;
	xr.n = 0;
	xr.total = 0;
	rc = do_durparse(func, pi, &a);
	++*c_eval;
	if (rc) {
		char site[48];
		xs_name(xr_sig_pc, site, sizeof(site));
		snprintf(key, sizeof(key), "%s: %s%s%s", fn, xg_signame(xr_sig), (xr_sig != SIGALRM && xr_sig != SIGABRT) ? " in " : "",
			 (xr_sig != SIGALRM && xr_sig != SIGABRT) ? site : "");
		report(key, (double)ilen, cas, *cmd ? cmd : NULL, "%s(\"%s\"): %s", fn, ie, xg_signame(xr_sig));
		return xg_must_restart();
	}
	for (int i = 0; i < xr.n; i++) {
		snprintf(key, sizeof(key), "%s: %s in %s", fn, xr.r[i].kind, xr.r[i].site);
		report(key, (double)ilen, cas, *cmd ? cmd : NULL, "%s(\"%s\") with the text in an exact-size block: %s, distance %ld (in %s)", fn, ie, xr.r[i].kind, xr_dist, xr.r[i].site);
		bad = 1;
	}
	if (a.epoff < 0 || a.epoff > (long)ilen) {
		snprintf(key, sizeof(key), "%s: end pointer outside the input text", fn);
		report(key, (double)ilen, cas, *cmd ? cmd : NULL, "%s(\"%s\"): end pointer at offset %ld of a text of length %zu", fn, ie, a.epoff, ilen);
		bad = 1;
	}
	ex_outcome(ex_hash_mix(ex_hash(a.raw, 16), (uint64_t)(a.epoff * 4 + func + 8)));
	pi = xa_place_fill(&xa_inp, inp, ilen + 1, FILL_INP_A, sizeof(FILL_INP_A));
	if (do_durparse(func, pi, &b)) {
		return xg_must_restart();
	}
	pi = xa_place_fill(&xa_inp, inp, ilen + 1, FILL_INP_B, sizeof(FILL_INP_B));
	if (do_durparse(func, pi, &c)) {
		return xg_must_restart();
	}
	*c_eval += 2;
	if (memcmp(b.raw, c.raw, 16) || b.epoff != c.epoff) {
		snprintf(key, sizeof(key), "%s: result depends on the bytes behind the terminator of the input", fn);
		report(key, (double)ilen, cas, *cmd ? cmd : NULL, "%s(\"%s\"): result differs with the bytes that follow the terminator (end offsets %ld / %ld)",
		       fn, ie, b.epoff, c.epoff);
		bad = 1;
	}
	if (bad) {
		++*c_nontriv;
	}
	if (replay_verbose) {
		printf("  %s(\"%s\"): %s, end offset %ld, %llu memory reports\n", fn, ie, a.unk ? "unknown" : "a duration", a.epoff, (unsigned long long)xr.total);
	}
	if (ex_want_sample()) {
		ex_sample("%s(\"%s\") -> %s, end offset %ld", fn, ie, a.unk ? "unknown" : "duration", a.epoff);
	}
	return 0;
}

/* ---- formatters ---- */
static size_t
call_formatter(int func, char *buf, size_t bsz, const char *fmt, int vi)
{
	switch (func) {
	case F_DT: return dt_strfdt(buf, bsz, fmt, vals[vi]);
	case F_D: return dt_strfd(buf, bsz, fmt, vals[vi].d);
	case F_T: return dt_strft(buf, bsz, fmt, vals[vi].t);
	case F_DTDUR: return dt_strfdtdur(buf, bsz, fmt, dtdurs[vi]);
	case F_DDUR: return dt_strfddur(buf, bsz, fmt, ddurs[vi]);
	}
	return 0;
}
static const char*
value_name(int func, int vi)
{
	return func <= F_T ? val_name[vi] : func == F_DTDUR ? dtdur_name[vi] : ddur_name[vi];
}
static int
value_count(int func)
{
	return func <= F_T ? NVAL : func == F_DTDUR ? NDTDUR : NDDUR;
}
static int
value_applies(int func, int vi)
{
	return func == F_D ? val_for_d[vi] : func == F_T ? val_for_t[vi] : 1;
}

#define BSZ_MAX	40
#define BSZ_NULLBUF	(-1)	/* buf == NULL, bsz == 16 */

/* one formatter case: returns nonzero if the process should be replaced */
static int
format_case(int func, const char *fmt, size_t flen, int vi, int bsz)
{
	EX_CTR(c_eval, "evaluations");
	EX_CTR(c_cases, "formatter_cases");
	EX_CTR(c_nontriv, "nontrivial");
	EX_CTR(c_trunc, "formatter_cases_buffer_too_small");
	char key[256], cas[128], cmd[256], fe[64], fh[64];
	const char *fn = formatter_name[func];
	const char *pf;
	char *po;
	size_t n = 0, room = bsz >= 0 ? (size_t)bsz : 16;
	long where = 0;
	int rc, bad = 0, canary;
	char outcopy[BSZ_MAX + 8];
	size_t ncopy = 0;
	/* ordered coordinate: the buffer size; the format length breaks ties so that the smallest example is the simplest */
	double ord = (double)bsz + (double)(flen < 99 ? flen : 99) / 100.0;

	if (xb_skip()) {
		return 0;
	}
	++*c_cases;
	pf = fmt ? xa_place(&xa_fmt, fmt, flen + 1) : NULL;
	xa_open(&xa_out, bsz >= 0 ? (size_t)bsz : 0);
	po = bsz >= 0 ? (char*)xa_out.p : NULL;
	xt_fmt_lo = pf;
	xt_fmt_hi = pf ? pf + flen + 1 : NULL;
	xt_fp = xt_ep = xt_in_fp = xt_in_ep = NULL;
	xr.n = 0;
	xr.total = 0;
	XG_BEGIN(rc) {
		n = call_formatter(func, po, room, pf, vi);
	} XG_END;
	++*c_eval;
	if (!rc && po) {
		ncopy = n < room ? n : room;
		if (ncopy > BSZ_MAX) {
			ncopy = BSZ_MAX;
		}
		memcpy(outcopy, po, ncopy);
		ex_outcome(ex_hash_mix(ex_hash(outcopy, ncopy), (uint64_t)func));
	}
	canary = xa_check(&xa_out, bsz >= 0 ? (size_t)bsz : 0, &where);

	if (rc || xr.n || n > room || canary) {
		xe_esc(fmt ? fmt : "(null)", fmt ? flen : 6, fe, sizeof(fe));
		xe_hex(fmt ? fmt : "", fmt ? flen : 0, fh, sizeof(fh));
		snprintf(cas, sizeof(cas), "F %d %s %d %d", func, fmt ? fh : "NULL", vi, bsz);
		cmd[0] = '\0';
		if (func == F_DT && fmt && xe_printable(fmt, flen) && vi == 1) {
			snprintf(cmd, sizeof(cmd), "dconv -f '%s' 2012-03-04T12:34:56   # (the tool's buffer has 256 bytes)", fmt);
		} else if (func <= F_D && fmt && xe_printable(fmt, flen) && vi == 14) {
			snprintf(cmd, sizeof(cmd), "dconv -f '%s' 1800-01-01", fmt);
		}
	}
	if (rc) {
		char sw[128], fc[48];
		snprintf(key, sizeof(key), "%s: %s%s%s", fn, sig_where(sw, sizeof(sw)), fmt_class(fmt, flen, fc, sizeof(fc)), bsz < 0 ? " [buffer NULL]" : "");
		report(key, ord, cas, *cmd ? cmd : NULL, "%s(%s, %d, \"%s\", %s): %s", fn, bsz < 0 ? "NULL" : "buf", bsz < 0 ? 16 : bsz, fe, value_name(func, vi), sw);
		return xg_must_restart();
	}
	for (int i = 0; i < xr.n; i++) {
		snprintf(key, sizeof(key), "%s: %s in %s, specifier %s", fn, xr.r[i].kind, xr.r[i].site, xr.r[i].tok[0] ? xr.r[i].tok : "-");
		report(key, ord, cas, *cmd ? cmd : NULL,
		       "%s(buf, %d, \"%s\", %s) with the format in an exact-size block and a buffer of exactly %d bytes: %s, distance %ld (in %s, while on specifier %s); returned %zu",
		       fn, bsz, fe, value_name(func, vi), bsz < 0 ? 0 : bsz, xr.r[i].kind, xr_dist, xr.r[i].site, xr.r[i].tok[0] ? xr.r[i].tok : "-", n);
		bad = 1;
	}
	if (n > room) {
		char tok[32], fc[48];
		xt_label_last(tok, sizeof(tok));
		snprintf(key, sizeof(key), "%s: return value exceeds the buffer size, last specifier %s%s", fn, tok, tok[0] == '-' ? fmt_class(fmt, flen, fc, sizeof(fc)) : "");
		report(key, ord, cas, *cmd ? cmd : NULL, "%s(buf, %d, \"%s\", %s) returned %zu", fn, bsz, fe, value_name(func, vi), n);
		bad = 1;
	}
	if (xr.n == 0 && canary) {
		snprintf(key, sizeof(key), "%s: bytes outside the output buffer changed (write not seen by the instrumentation)", fn);
		report(key, ord, cas, *cmd ? cmd : NULL, "%s(buf, %d, \"%s\", %s): byte at offset %ld of the buffer was overwritten", fn, bsz, fe,
		       value_name(func, vi), where);
		bad = 1;
	}
	if (bad) {
		++*c_nontriv;
	}
	if (replay_verbose) {
		char oe[256];
		printf("  %s(buf[%d], \"%s\", %s) returned %zu, wrote \"%s\", %llu memory reports\n", fn, bsz, fmt ? xe_esc(fmt, flen, fe, sizeof(fe)) : "(null)",
		       value_name(func, vi), n, xe_esc(outcopy, ncopy, oe, sizeof(oe)), (unsigned long long)xr.total);
	}
	if (ex_want_sample()) {
		char oe[128];
		xe_esc(fmt ? fmt : "(null)", fmt ? flen : 6, fe, sizeof(fe));
		ex_sample("%s(buf[%d], \"%s\", %s) -> %zu \"%s\"", fn, bsz, fe, value_name(func, vi), n, xe_esc(outcopy, ncopy, oe, sizeof(oe)));
	}
	(void)c_trunc;
	return 0;
}

/* does the output depend on what follows the format's terminator?  (bsz 40, both fills) */
static int
format_tail_case(int func, const char *fmt, size_t flen, int vi)
{
	EX_CTR(c_eval, "evaluations");
	EX_CTR(c_cases, "formatter_tail_cases");
	char key[256], cas[128], cmd[256], fe[64], fh[64], o1[64], o2[64], e1[200], e2[200], tok[32];
	const char *fn = formatter_name[func];
	const char *pf;
	size_t n1 = 0, n2 = 0;
	int rc;
	long where;

	if (xb_skip()) {
		return 0;
	}
	++*c_cases;
	xa_open(&xa_out, 64);
	memset(xa_out.p, 0, 64);
	pf = xa_place_fill(&xa_fmt, fmt, flen + 1, FILL_FMT_A, sizeof(FILL_FMT_A));
	xt_fmt_lo = pf;
	xt_fmt_hi = pf + flen + 1;
	xt_fp = xt_ep = xt_in_fp = xt_in_ep = NULL;
	XG_BEGIN(rc) {
		n1 = call_formatter(func, (char*)xa_out.p, BSZ_MAX, pf, vi);
	} XG_END;
	if (rc) {
		(void)xa_check(&xa_out, 64, &where);
		return xg_must_restart();
	}
	if (n1 > 63) {
		n1 = 63;
	}
	memcpy(o1, xa_out.p, 64);
	memset(xa_out.p, 0, 64);
	pf = xa_place_fill(&xa_fmt, fmt, flen + 1, FILL_FMT_B, sizeof(FILL_FMT_B));
	XG_BEGIN(rc) {
		n2 = call_formatter(func, (char*)xa_out.p, BSZ_MAX, pf, vi);
	} XG_END;
	if (rc) {
		(void)xa_check(&xa_out, 64, &where);
		return xg_must_restart();
	}
	if (n2 > 63) {
		n2 = 63;
	}
	memcpy(o2, xa_out.p, 64);
	(void)xa_check(&xa_out, 64, &where);
	*c_eval += 2;
	if (n1 != n2 || memcmp(o1, o2, n1)) {
		xe_esc(fmt, flen, fe, sizeof(fe));
		xe_hex(fmt, flen, fh, sizeof(fh));
		snprintf(cas, sizeof(cas), "T %d %s %d", func, fh, vi);
		cmd[0] = '\0';
		if (func == F_DT && xe_printable(fmt, flen) && vi == 1) {
			snprintf(cmd, sizeof(cmd), "dconv -f '%s' 2012-03-04T12:34:56", fmt);
		}
		xt_label_last(tok, sizeof(tok));
		snprintf(key, sizeof(key), "%s: output depends on the bytes behind the format's terminator, last specifier %s", fn, tok);
		report(key, (double)flen, cas, *cmd ? cmd : NULL, "%s(buf, 40, \"%s\", %s) prints \"%s\" when '%%Y-%%m-%%d...' follows the terminator and \"%s\" when control bytes follow",
		       fn, fe, value_name(func, vi), xe_esc(o1, n1, e1, sizeof(e1)), xe_esc(o2, n2, e2, sizeof(e2)));
	}
	return 0;
}

/* ---- per-string drivers ---- */
static const char *const fixed_texts[] = {
	"\x01", "2012-03-04T12:34:56", "04 Mar 2012", "Sunday", "4th", "MMXII", "@1330864496", "-1", "+05:30", "Z", "\t", "%", "23b", "4",
	NULL,	/* 300 digits, built at start */
};
#define NFIXED	((int)(sizeof(fixed_texts) / sizeof(*fixed_texts)))
static char digits300[301];

/* the text the formatter prints for FMT (run on a copy with slack behind it, so it cannot do harm) */
static size_t
valid_text(const char *fmt, size_t flen, char *out, size_t osz)
{
	static char safe[64];
	size_t n = 0;
	int rc;
	memset(safe, 0, sizeof(safe));
	memcpy(safe, fmt, flen);
	xt_fmt_lo = xt_fmt_hi = NULL;
	memset(out, 0, osz);
	XG_BEGIN(rc) {
		n = dt_strfdt(out, osz - 1, safe, vals[1]);
	} XG_END;
	if (rc || n >= osz) {
		n = 0;
	}
	out[n] = '\0';
	return n;
}

static char g_mode;
static size_t
get_format(uint64_t idx, uint64_t nenum, char *buf)
{
	if (g_mode == 'H' || g_mode == 'h') {
		return xh_format(idx, buf);
	}
	if (g_mode == 'S' || g_mode == 'Q') {
		/* single specifiers, then ordered pairs */
		if (idx < XC_NSPECS) {
			strcpy(buf, xc_specs[idx]);
		} else {
			idx -= XC_NSPECS;
			strcpy(buf, xc_specs[idx / XC_NSPECS]);
			strcat(buf, xc_specs[idx % XC_NSPECS]);
		}
		return strlen(buf);
	}
	if (idx < nenum) {
		return idx2str(idx, SF, buf);
	}
	strcpy(buf, named_fmt[idx - nenum]);
	return strlen(buf);
}

static int g_maxlen;
static uint64_t g_nenum;

/* mode P: one format x texts x parsers */
static int
unit_P(uint64_t idx)
{
	EX_CTR(c_states, "states");
	char fmt[32], text[128];
	size_t flen = get_format(idx, g_nenum, fmt), tlen;

	++*c_states;
	tlen = valid_text(fmt, flen, text, sizeof(text));
	for (int func = 0; func < NPARSER; func++) {
		for (size_t l = 0; l <= tlen; l++) {
			char t[128];
			memcpy(t, text, l);
			t[l] = '\0';
			if (parse_case(func, fmt, flen, t, l, 'P')) {
				return 1;
			}
		}
		for (int k = 0; k < NFIXED; k++) {
			const char *t = fixed_texts[k] ? fixed_texts[k] : digits300;
			if (parse_case(func, fmt, flen, t, strlen(t), 'P')) {
				return 1;
			}
		}
	}
	return 0;
}

/* mode I: one input x formats x parsers, and as a duration */
static const char *const input_fmts[] = {
	NULL, "%Y-%m-%d", "%Y-%m-%dT%H:%M:%S", "%d %b %Y", "%G-W%V-%u", "%Y-%j", "%s", "%T", "%Y-%m-%c-%w", "%Y-%m-%db",
	"%dth %B %Y", "%I:%M %p", "%a %Z", "ymd", "ywd", "ldn", "jdn", "hijri", "%H:%M:%S.%N", "%rY-W%V-%u", "%Od.%Om.%OY",
};
#define NINFMT	((int)(sizeof(input_fmts) / sizeof(*input_fmts)))

static int
unit_I(uint64_t idx)
{
	EX_CTR(c_states, "states");
	char inp[32];
	size_t ilen = idx2str(idx, SI, inp);

	++*c_states;
	for (int func = 0; func < NPARSER; func++) {
		for (int k = 0; k < NINFMT; k++) {
			const char *f = input_fmts[k];
			if (parse_case(func, f, f ? strlen(f) : 0, inp, ilen, 'I')) {
				return 1;
			}
		}
	}
	for (int func = 0; func < NDURP; func++) {
		if (dur_case(func, inp, ilen)) {
			return 1;
		}
	}
	return 0;
}
/* mode D: one duration text over the duration alphabet */
static int
unit_D(uint64_t idx)
{
	EX_CTR(c_states, "states");
	char inp[32];
	size_t ilen = idx2str(idx, SD, inp);

	++*c_states;
	for (int func = 0; func < NDURP; func++) {
		if (dur_case(func, inp, ilen)) {
			return 1;
		}
	}
	/* durations are also what the tools hand to the date parser first */
	return parse_case(P_DT, NULL, 0, inp, ilen, 'I');
}

static int g_only_case = -1;

/* ---- mode X: texts that are no date under the format must be reported as such ----
 * The statement: "Text that is not a date under the given formats is reported as such".  Non-dates are MADE
 * from the text the formatter prints for the format (value 2012-03-04T12:34:56) by one mutation whose result is
 * certainly no date under that format: a numeric field replaced by a letter, by nothing (inner fields only) or by
 * a number outside its documented range; a name replaced by a non-name; a literal (also the separators inside
 * %F and %T) replaced by a letter or a digit; for the day-number names the empty string, a blank, ".5", "x".
 * Oracle: dt_strpdt (and dt_strpd for date formats) returns "unknown".  Not judged: which error is reported. */
static const char *const xfmts[] = {
	"%F", "%Y-%m-%d", "%d/%m/%Y", "%Y-%j", "%G-W%V-%u", "%Y-W%V-%u", "%Y %U %w", "%Y %W %u", "%Y %C %a", "%Y-%m-%c-%w", "%Y-%m-%db",
	"%d %b %Y", "%a %d %B %Y", "%FT%T", "%T", "%H:%M", "%I:%M %p", "%Y-%q", "%Q %Y", "%dth %B %Y", "%Od.%Om.%OY", "%y-%m-%d", "%_y-%m-%d",
	"%Y-%m-%dT%H:%M:%S", "%H:%M:%S.%N", "%s", "ymd", "ywd", "ymcw", "yd", "bizda",
};
#define NXFMT	((int)(sizeof(xfmts) / sizeof(*xfmts)))
static const char *const xnames[] = {"ldn", "lilian", "mdn", "matlab", "jdn", "julian", "hijri", "ummulqura"};
/* the Hijri calendar (Umm al-Qura table of data/ummulqura.tab, years 1318..1450, year-month-day): texts that are certainly
 * no date of it.  A day the month does not have (30 or 31 in a 29-day month) is clamped like 2012-04-31 is, not judged. */
static const struct {
	const char *text;
	const char *what;
} xhijri_texts[] = {
	{"1445", "a truncated text (year only, month or day missing)"},
	{"1445-", "a truncated text (year only, month or day missing)"},
	{"1445-09", "a truncated text (year only, month or day missing)"},
	{"1445-09-", "a truncated text (year only, month or day missing)"},
	{"1445--01", "a truncated text (year only, month or day missing)"},
	{"1445-13-01", "a month or day outside 1..12 / 1..31"},
	{"1445-00-01", "a month or day outside 1..12 / 1..31"},
	{"1445-09-00", "a month or day outside 1..12 / 1..31"},
	{"1445-09-32", "a month or day outside 1..12 / 1..31"},
	{"2024-03-11", "a year outside the table (1318..1450)"},
	{"1317-01-01", "a year outside the table (1318..1450)"},
	{"1451-01-01", "a year outside the table (1318..1450)"},
	{"9999-01-01", "a year outside the table (1318..1450)"},
	{"0000-01-01", "a year outside the table (1318..1450)"},
};
#define NXHIJRI	((int)(sizeof(xhijri_texts) / sizeof(*xhijri_texts)))
static const char *const xname_texts[] = {"", " ", ".5", "x", "-", "+", "\t"};

struct xtok {
	char spec[12];
	char piece[40];
	int lit;
};

static const char*
x_oor(const char *spec)
{
	/* a number outside the documented range of the specifier (info/format.texi), NULL if there is none to use */
	char c = spec[strlen(spec) - 1];
	if (spec[1] == 'O' || spec[1] == '_') {
		return NULL;
	}
	if (strlen(spec) > 2 && !(spec[2] == 't' || spec[2] == 'b' || spec[2] == 'B')) {
		return NULL;
	}
	switch (spec[1]) {
	case 'm': return "13";
	case 'd': return spec[2] == 'b' || spec[2] == 'B' ? "24" : "32";
	case 'j': case 'D': return "367";
	case 'V': case 'U': case 'W': case 'C': return "54";
	case 'c': return "6";
	case 'u': case 'w': return "8";
	case 'H': return "25";
	case 'I': return "13";
	case 'M': return "60";
	case 'S': return "61";
	case 'q': return "5";
	default: (void)c; return NULL;
	}
}

static int
nondate_check(int func, const char *fmt, const char *text, const char *what, const char *speclab, double ord, const char *cas)
{
	EX_CTR(c_eval, "evaluations");
	EX_CTR(c_cases, "nondate_cases");
	EX_CTR(c_nontriv, "nontrivial");
	char key[256], cmd[300], te[200], fe[64];
	const char *fn = parser_name[func];
	size_t flen = strlen(fmt), tlen = strlen(text);
	const char *pf, *pi;
	struct pres a;
	int rc;

	if (xb_skip()) {
		return 0;
	}
	++*c_cases;
	pf = xa_place(&xa_fmt, fmt, flen + 1);
	pi = xa_place(&xa_inp, text, tlen + 1);
	xt_fmt_lo = pf;
	xt_fmt_hi = pf + flen + 1;
	xt_fp = xt_ep = xt_in_fp = xt_in_ep = NULL;
	xr.n = 0;
	xr.total = 0;
	rc = do_parse(func, pf, pi, &a);
	++*c_eval;
	if (rc) {
		return xg_must_restart();	/* signals on such texts are mode P/I/Q business */
	}
	ex_outcome(ex_hash_mix(ex_hash(a.raw, 16), 77));
	if (!a.unk) {
		char got[64] = "";
		if (func == P_DT) {
			struct dt_dt_s v;
			memcpy(&v, a.raw, sizeof(v));
			dt_strfdt(got, sizeof(got), NULL, v);
		}
		++*c_nontriv;
		xe_esc(text, tlen, te, sizeof(te));
		xe_esc(fmt, flen, fe, sizeof(fe));
		snprintf(key, sizeof(key), "%s: text that is no date under the format is accepted: %s, %s", fn, speclab, what);
		cmd[0] = '\0';
		if (func == P_DT && xe_printable(text, tlen)) {
			snprintf(cmd, sizeof(cmd), "dconv -i '%s' '%s'; echo rc=$?", fmt, text);
		}
		report(key, ord, cas, *cmd ? cmd : NULL, "%s(\"%s\", \"%s\") is not \"unknown\" but %s (%s in a text that the formatter made for this format)", fn, te, fe,
		       got[0] ? got : "a value", what);
	} else if (replay_verbose) {
		printf("  %s(\"%s\", \"%s\"): unknown, as it should be\n", fn, text, fmt);
	}
	if (ex_want_sample()) {
		ex_sample("%s(\"%s\", \"%s\") [%s] -> %s", fn, text, fmt, what, a.unk ? "unknown" : "VALUE");
	}
	return 0;
}

static int
unit_X(uint64_t idx)
{
	EX_CTR(c_states, "states");
	struct xtok tk[24];
	char fmt[64], safe[80], text[200], cas[64], lab[48];
	const char *fp;
	int nt = 0, rc;
	const char *eff;

	++*c_states;
	if (idx >= (uint64_t)NXFMT) {
		/* the day-number names: empty and blank texts */
		const char *nm = xnames[idx - NXFMT];
		for (size_t k = 0; k < sizeof(xname_texts) / sizeof(*xname_texts); k++) {
			snprintf(cas, sizeof(cas), "X %llu %d", (unsigned long long)idx, (int)k);
			snprintf(lab, sizeof(lab), "format name %s", nm[0] == 'h' || nm[0] == 'u' ? "hijri/ummulqura" : nm);
			if (k == 2 && (nm[0] == 'j')) {
				continue;	/* ".5" is a number where a fraction is expected */
			}
			if (nondate_check(P_DT, nm, xname_texts[k], "a text without any digit in front (empty, blank, tab, sign, bare fraction, letter)", lab,
					  (double)strlen(xname_texts[k]), cas)) {
				return 1;
			}
		}
		if (nm[0] == 'h' || nm[0] == 'u') {
			int base = (int)(sizeof(xname_texts) / sizeof(*xname_texts));
			/* the date-only parser knows the name as well */
			for (int k = 0; k < base; k++) {
				snprintf(cas, sizeof(cas), "X %llu %d", (unsigned long long)idx, base + k);
				if (nondate_check(P_D, nm, xname_texts[k], "a text without any digit in front (empty, blank, tab, sign, bare fraction, letter)", lab,
						  (double)strlen(xname_texts[k]), cas)) {
					return 1;
				}
			}
			for (int k = 0; k < NXHIJRI; k++) {
				for (int f = 0; f < 2; f++) {
					snprintf(cas, sizeof(cas), "X %llu %d", (unsigned long long)idx, 2 * base + 2 * k + f);
					if (nondate_check(f ? P_D : P_DT, nm, xhijri_texts[k].text, xhijri_texts[k].what, lab, (double)strlen(xhijri_texts[k].text), cas)) {
						return 1;
					}
				}
			}
		}
		return 0;
	}
	strcpy(fmt, xfmts[idx]);
	/* calendar names stand for their documented format */
	eff = !strcmp(fmt, "ymd") ? "%Y-%m-%d" : !strcmp(fmt, "ywd") ? "%rY-W%V-%u" : !strcmp(fmt, "ymcw") ? "%Y-%m-%c-%w" : !strcmp(fmt, "yd") ? "%Y-%D" :
		!strcmp(fmt, "bizda") ? "%Y-%m-%db" : fmt;
	memset(safe, 0, sizeof(safe));
	strcpy(safe, eff);
	/* tokens and the piece of text each of them prints */
	for (fp = safe; *fp && nt < 24;) {
		const char *sav = fp, *ep = NULL;
		struct dt_spec_s sp = c10_real_tok_spec(sav, &ep);
		size_t l = (size_t)(ep - sav);
		char one[16];
		fp = ep;
		memset(one, 0, sizeof(one));
		memcpy(one, sav, l < 11 ? l : 11);
		snprintf(tk[nt].spec, sizeof(tk[nt].spec), "%s", one);
		tk[nt].lit = sp.spfl == DT_SPFL_UNK;
		XG_BEGIN(rc) {
			size_t n = dt_strfdt(tk[nt].piece, sizeof(tk[nt].piece) - 1, one, vals[6].d.typ && strstr(eff, "%db") ? vals[6] : vals[1]);
			tk[nt].piece[n < sizeof(tk[nt].piece) ? n : 0] = '\0';
		} XG_END;
		if (rc) {
			return 0;
		}
		nt++;
	}
#define JOIN(I, REPL)	do { \
		size_t k_ = 0; \
		for (int j_ = 0; j_ < nt; j_++) { \
			k_ += (size_t)snprintf(text + k_, sizeof(text) - k_, "%s", j_ == (I) ? (REPL) : tk[j_].piece); \
		} \
	} while (0)
#define TRY(WHAT, LAB)	do { \
		snprintf(cas, sizeof(cas), "X %llu %d", (unsigned long long)idx, ncase); \
		if (only_case < 0 || only_case == ncase) { \
			int isdate_ = strstr(eff, "%H") == NULL && strstr(eff, "%I") == NULL && strstr(eff, "%T") == NULL && strstr(eff, "%s") == NULL && strstr(eff, "%N") == NULL; \
			if (nondate_check(P_DT, fmt, text, (WHAT), (LAB), (double)strlen(fmt), cas)) return 1; \
			if (isdate_ && fmt[0] == '%' && nondate_check(P_D, fmt, text, (WHAT), (LAB), (double)strlen(fmt), cas)) return 1; \
		} \
		ncase++; \
	} while (0)
	{
		int ncase = 0, only_case = g_only_case;
		for (int i = 0; i < nt; i++) {
			if (tk[i].lit) {
				snprintf(lab, sizeof(lab), "literal '%s'", tk[i].spec);
				JOIN(i, "x");
				TRY("literal replaced by the letter x", lab);
				JOIN(i, "9");
				TRY("literal replaced by the digit 9", lab);
				continue;
			}
			snprintf(lab, sizeof(lab), "specifier %s", tk[i].spec);
			if (!strcmp(tk[i].spec, "%F") || !strcmp(tk[i].spec, "%T")) {
				/* the separators inside */
				static const int pos[2][2] = {{4, 7}, {2, 5}};
				int w = !strcmp(tk[i].spec, "%T");
				for (int q = 0; q < 2; q++) {
					char pc[40];
					strcpy(pc, tk[i].piece);
					if (strlen(pc) <= (size_t)pos[w][q]) {
						continue;
					}
					pc[pos[w][q]] = 'x';
					JOIN(i, pc);
					TRY(q ? "second inner separator replaced by the letter x" : "first inner separator replaced by the letter x", lab);
					pc[pos[w][q]] = '9';
					JOIN(i, pc);
					TRY(q ? "second inner separator replaced by the digit 9" : "first inner separator replaced by the digit 9", lab);
				}
				continue;
			}
			if (!strcmp(tk[i].spec, "%s")) {
				JOIN(i, "x");
				TRY("number replaced by the letter x", lab);
				continue;
			}
			if (tk[i].piece[0] >= '0' && tk[i].piece[0] <= '9') {
				const char *oor = x_oor(tk[i].spec);
				JOIN(i, "x");
				TRY("number replaced by the letter x", lab);
				if (i + 1 < nt && tk[i + 1].lit && tk[i + 1].spec[0] != ' ') {
					/* (in front of a blank the gap could be read as blank padding of the next field) */
					JOIN(i, "");
					TRY("number left out", lab);
				}
				if (oor) {
					char pc[16];
					snprintf(pc, sizeof(pc), "%s%s", oor, strlen(tk[i].spec) > 2 && tk[i].spec[2] == 't' ? "th" : strlen(tk[i].spec) > 2 ? "b" : "");
					JOIN(i, pc);
					TRY("number beyond its documented range", lab);
				}
			} else if (tk[i].piece[0]) {
				JOIN(i, "Xyz");
				TRY("name or numeral replaced by Xyz", lab);
			}
		}
	}
#undef JOIN
#undef TRY
	return 0;
}

/* mode F: one format x values x buffer sizes x formatters */
static int
unit_F(uint64_t idx)
{
	EX_CTR(c_states, "states");
	char fmt[32];
	size_t flen = get_format(idx, g_nenum, fmt);

	++*c_states;
	for (int func = 0; func < NFORMATTER; func++) {
		int nv = value_count(func);
		for (int vi = 0; vi < nv; vi++) {
			if (!value_applies(func, vi)) {
				continue;
			}
			for (int bsz = 0; bsz <= BSZ_MAX; bsz++) {
				if (g_mode == 'H' && !(bsz <= 2 || bsz == 8 || bsz == BSZ_MAX)) {
					continue;	/* the high byte acts before anything is printed: five sizes will do */
				}
				if (format_case(func, fmt, flen, vi, bsz)) {
					return 1;
				}
			}
			if (format_tail_case(func, fmt, flen, vi)) {
				return 1;
			}
		}
	}
	return 0;
}
/* the NULL format and a NULL buffer, once */
static int
unit_F_null(uint64_t idx)
{
	(void)idx;
	for (int func = 0; func < NFORMATTER; func++) {
		int nv = value_count(func);
		for (int vi = 0; vi < nv; vi++) {
			if (!value_applies(func, vi)) {
				continue;
			}
			for (int bsz = 0; bsz <= BSZ_MAX; bsz++) {
				if (format_case(func, NULL, 0, vi, bsz)) {
					return 1;
				}
			}
			if (format_case(func, "%Y-%m-%d", 8, vi, BSZ_NULLBUF)) {
				return 1;
			}
		}
	}
	return 0;
}

/* a child died without a word */
static void
on_death(uint64_t idx, uint64_t sub, int st)
{
	char key[128], cas[64], detail[256];
	snprintf(key, sizeof(key), "mode %c: child process died (%s %d) without unwinding", g_mode, WIFSIGNALED(st) ? "signal" : "status",
		 WIFSIGNALED(st) ? WTERMSIG(st) : WEXITSTATUS(st));
	snprintf(cas, sizeof(cas), "U %c %llu %llu", g_mode, (unsigned long long)idx, (unsigned long long)sub);
	snprintf(detail, sizeof(detail), "the child working on case %llu of string #%llu of mode %c died: wait status 0x%x", (unsigned long long)sub,
		 (unsigned long long)idx, g_mode, st);
	xv_viol(key, (double)idx, cas, NULL, detail);
}

static int
run_unit(char mode, uint64_t idx)
{
	switch (mode) {
	case 'P': return unit_P(idx);
	case 'I': return unit_I(idx);
	case 'D': return unit_D(idx);
	case 'X': return unit_X(idx);
	case 'F': return unit_F(idx);
	case 'S': return unit_F(idx);
	case 'Q': return unit_P(idx);
	case 'h': return unit_P(idx);
	case 'H': return unit_F(idx);
	case 'N': return unit_F_null(idx);
	}
	return 0;
}
static int unit_cb(uint64_t idx) { return run_unit(g_mode, idx); }

int
main(int argc, char *argv[])
{
	EX_CTR(c_states, "states");
	EX_CTR(c_traces, "traces");
	EX_CTR(c_eval, "evaluations");
	EX_CTR(c_nontriv, "nontrivial");
	uint64_t slice = 0;
	int lenP, lenI, lenF;

	ex_init(argc, argv);
	xs_load();
	xa_init(&xa_fmt);
	xa_init(&xa_inp);
	xa_init(&xa_out);
	xa_init(&xa_aux);
	memset(digits300, '7', 300);
	init_values();
	/* bounds per tier (measured, see ex_meta("bound")) */
	lenP = ex.thorough ? 6 : 5;
	lenI = ex.thorough ? 6 : 5;
	lenF = ex.thorough ? 5 : 4;
	for (int i = 1; i + 1 < argc; i++) {
		if (!strcmp(argv[i], "--lenP")) lenP = atoi(argv[i + 1]);
		if (!strcmp(argv[i], "--lenI")) lenI = atoi(argv[i + 1]);
		if (!strcmp(argv[i], "--lenF")) lenF = atoi(argv[i + 1]);
	}

	if (ex.cas) {
		char m = ex.cas[0];
		char h1[64], h2[1400], b1[64], b2[700], mm = 'P';
		int func, vi, bsz;
		size_t l1, l2;
		replay_verbose = 1;
		xg_init(1000);
		if (m == 'P' && sscanf(ex.cas, "P %d %63s %1399s %c", &func, h1, h2, &mm) >= 3 && func >= 0 && func < NPARSER) {
			int nul = !strcmp(h1, "NULL");
			l1 = nul ? 0 : xe_unhex(h1, b1, sizeof(b1) - 1);
			b1[l1] = '\0';
			l2 = xe_unhex(h2, b2, sizeof(b2) - 1);
			b2[l2] = '\0';
			parse_case(func, nul ? NULL : b1, l1, b2, l2, mm);
		} else if (m == 'X' && sscanf(ex.cas, "X %d %d", &func, &vi) == 2 && func >= 0 && (size_t)func < NXFMT + sizeof(xnames) / sizeof(*xnames)) {
			if (func < NXFMT) {
				g_only_case = vi;
				unit_X((uint64_t)func);
			} else {
				xb_skip_upto = (uint64_t)vi;
				unit_X((uint64_t)func);
			}
		} else if (m == 'D' && sscanf(ex.cas, "D %d %63s", &func, h1) == 2 && func >= 0 && func < NDURP) {
			l1 = xe_unhex(h1, b1, sizeof(b1) - 1);
			b1[l1] = '\0';
			dur_case(func, b1, l1);
		} else if (m == 'F' && sscanf(ex.cas, "F %d %63s %d %d", &func, h1, &vi, &bsz) == 4 && func >= 0 && func < NFORMATTER &&
			   vi >= 0 && vi < value_count(func) && bsz >= -1 && bsz <= 4096) {
			int nul = !strcmp(h1, "NULL");
			l1 = nul ? 0 : xe_unhex(h1, b1, sizeof(b1) - 1);
			b1[l1] = '\0';
			format_case(func, nul ? NULL : b1, l1, vi, bsz);
		} else if (m == 'T' && sscanf(ex.cas, "T %d %63s %d", &func, h1, &vi) == 3 && func >= 0 && func < NFORMATTER && vi >= 0 &&
			   vi < value_count(func)) {
			l1 = xe_unhex(h1, b1, sizeof(b1) - 1);
			b1[l1] = '\0';
			format_tail_case(func, b1, l1, vi);
		} else if (m == 'U') {
			unsigned long long idx, sub;
			char md;
			if (sscanf(ex.cas, "U %c %llu %llu", &md, &idx, &sub) == 3) {
				g_maxlen = md == 'F' ? lenF : md == 'P' ? lenP : lenI;
				g_nenum = nstrings(g_maxlen);
				g_mode = md;
				printf("  running case %llu of string #%llu of mode %c in this process\n", sub, idx, md);
				fflush(stdout);
				xb_skip_upto = sub - 1;
				run_unit(md, idx);
			}
		} else {
			return ex_replay_result(1, "bad case string '%s'", ex.cas);
		}
		return ex_replay_result(replay_fails, "%d violation(s)", replay_fails);
	}

	xb_init();
	ex_meta("rule", "byte strings in canonical order (by length, then alphabet order). P: string over {%% Y d b O _ t h s - a Z} (+%d calendar names) as format x "
		"(the text dt_strfdt prints for it and every truncation of that text + %d fixed texts incl. a control byte and 300 digits) x {dt_strpdt,dt_strpd,dt_strpt}. "
		"I: string over {2 0 1 - : T W b SPC @ + 0x01} as input x %d formats (incl. none) x the 3 parsers, and as duration for dt_strpdtdur/dt_strpddur; "
		"D: string over {1 9 0 - + d m o w r s /} as duration. F: format string x %d date/time values (one per held representation) / %d+%d durations x every buffer size 0..%d "
		"x {dt_strfdt,dt_strfd,dt_strft,dt_strfdtdur,dt_strfddur}. Q/S: additionally every specifier of the grammar (%d forms incl. modifiers, suffixes, truncated ones) "
		"alone and every ordered pair of them as format, for the parsers (Q) and the formatters (S), same texts / values / sizes. Every string sits in a block of exactly its size (ASan red zone before the first and behind the last byte), "
		"the output buffer has exactly bsz bytes. Oracles: no ASan/bounds report, no fatal signal, returns within 1 s, return value <= bsz, no byte outside the buffer changed, "
		"parser answer and end pointer independent of the bytes behind the terminators (two fills) and end pointer inside the text, formatter output independent of the bytes "
		"behind the format's terminator. H/h: every string over the format alphabet of length <= 3 (thorough 4) with 0x80, 0xc3, 0xff or the UTF-8 letter e-acute inserted at "
		"every position 0..3, for the formatters (buffer sizes 0 1 2 8 40) and the parsers. X: %d formats (each specifier in a determining context, calendar names) x the text the formatter prints for them with ONE mutation that makes it "
		"certainly no date under the format (numeric field -> letter / nothing / beyond its documented range, name -> Xyz, literal or inner separator of %%F/%%T -> letter / digit) and "
		"the day-number names and hijri/ummulqura with empty, blank, '.5', 'x' texts, hijri/ummulqura also with truncated texts, month/day 0, month 13, day 32 and years outside the table 1318..1450 (a day the month does not have is clamped like 2012-04-31, not judged): dt_strpdt/dt_strpd must answer unknown. non-trivial = case with at least one report. Not judged: WHICH value a parser returns (C09) and whether partial dates are dates.",
		(int)NNAMED, NFIXED, NINFMT, NVAL, NDTDUR, NDDUR, BSZ_MAX, (int)XC_NSPECS, NXFMT);
	ex_meta("bound", "format strings for the parsers: length <= %d (%llu strings); input strings: length <= %d (%llu) ; duration strings: length <= %d; "
		"format strings for the formatters: length <= %d (%llu strings) x all sizes 0..%d; specifier list: %d singles + %d ordered pairs (both tiers)",
		lenP, (unsigned long long)nstrings(lenP), lenI, (unsigned long long)nstrings(lenI), lenI, lenF, (unsigned long long)nstrings(lenF), BSZ_MAX, (int)XC_NSPECS, (int)(XC_NSPECS * XC_NSPECS));

	{
		static const struct { char mode; int batch; } plan[] = {{'N', 1}, {'X', 4}, {'h', 512}, {'H', 256}, {'Q', 256}, {'S', 32}, {'P', 1024}, {'I', 2048}, {'D', 8192}, {'F', 128}};
		for (size_t k = 0; k < sizeof(plan) / sizeof(*plan) && !ex_expired(); k++) {
			uint64_t total;
			g_mode = plan[k].mode;
			g_maxlen = g_mode == 'F' ? lenF : g_mode == 'P' ? lenP : lenI;
			g_nenum = nstrings(g_maxlen);
			total = g_mode == 'N' ? 1 : (g_mode == 'H' || g_mode == 'h') ? xh_count(ex.thorough ? 4 : 3) : g_mode == 'X' ? (uint64_t)NXFMT + sizeof(xnames) / sizeof(*xnames) : (g_mode == 'S' || g_mode == 'Q') ? XC_NSPECS + XC_NSPECS * XC_NSPECS :
				g_nenum + ((g_mode == 'P' || g_mode == 'F') ? NNAMED : 0);
			for (uint64_t lo = 0; lo < total && !ex.expired; lo += (uint64_t)plan[k].batch, slice++) {
				uint64_t hi = lo + (uint64_t)plan[k].batch < total ? lo + (uint64_t)plan[k].batch : total;
				if (!ex_mine(slice)) {
					continue;
				}
				xb_run(lo, hi, unit_cb, on_death);
				++*c_traces;
			}
		}
	}
	(void)c_states;
	(void)c_eval;
	(void)c_nontriv;
	return ex_finish();
}
