/* c12_wd.h -- CPU-time watchdog on top of explore.h's wall-clock one.
 * A guarded call (EX_GUARD_BEGIN/END) that burns zc_wd_limit ticks of 4 ms of the
 * process's own CPU time without finishing is reported as "does not return"; a worker
 * that is merely descheduled on a loaded machine is never taken for a hang.
 * explore.h's wall-clock timer (4 s period) stays as a fallback for calls that block. */
#ifndef VERIF_C12_WD_H
#define VERIF_C12_WD_H
#include <signal.h>
#include <sys/time.h>
#include "explore.h"

static volatile uint64_t zc_wd_seen;
static volatile int zc_wd_ticks;
static volatile int zc_wd_limit = 4;	/* ticks of 4 ms CPU time within one guarded call */

static void
zc_wd_vtalrm(int sig)
{
	(void)sig;
	if (!ex_armed) {
		return;
	}
	if (ex_progress != zc_wd_seen) {
		zc_wd_seen = ex_progress;
		zc_wd_ticks = 0;
		return;
	}
	if (++zc_wd_ticks >= zc_wd_limit) {
		ex_armed = 0;
		siglongjmp(ex_jb, 1);
	}
}

static void
zc_wd_init(void)
{
	struct sigaction sa;
	struct itimerval it;

	/* wall-clock fallback and the fatal-signal handlers of explore.h */
	ex_wd_init(4000);
	memset(&sa, 0, sizeof(sa));
	sa.sa_handler = zc_wd_vtalrm;
	sa.sa_flags = SA_NODEFER;
	sigaction(SIGVTALRM, &sa, NULL);
	it.it_interval.tv_sec = 0;
	it.it_interval.tv_usec = 4000;
	it.it_value = it.it_interval;
	setitimer(ITIMER_VIRTUAL, &it, NULL);
}

#endif	/* VERIF_C12_WD_H */
