/* c20_locale.c -- C20, explorer 2: --from-locale affects parsing only and --locale
 * printing only, in whatever order and combination (asan variant).
 *
 * lib/dt-locale.c is included into this translation unit, so the real state of the
 * locale switch -- the eight name-table pointers dut_{long,abbr}_{wday,mon} (input) and
 * duf_{long,abbr}_{wday,mon} (output) -- and the built-in tables can be read directly.
 *
 * Reference model: state = (input locale, output locale), each a shipped locale or "built
 * in"; setilocale(L) sets the first, setflocale(L) the second, a NULL argument resets the
 * respective one; nothing else changes.  The names of a locale are read from
 * <tree>/data/locale by a reader written here (self-checked against a second one).
 *
 * (i)   pairs: all ordered pairs (A, B) of shipped locales and "none" (= setter not called),
 *       in both call orders, from the initial state: the four input tables hold A's names,
 *       the four output tables B's; every month and weekday name of A parses (public
 *       parser) to its index; every month and weekday prints (public formatter) as B's name.
 * (ii)  sequences: all operation sequences of length <= 4 (thorough: 5) over {seti, setf} x {3 locales,
 *       NULL}, every step compared with the model, ASan watching the reset paths (they free).
 * (iii) closure: breadth-first search over the canonicalised real state (which locale each
 *       of the eight tables holds) under the same alphabet until no new state appears.
 * (iv)  main(): the binaries dconv dadd dround dseq of the same (asan) build with
 *       --from-locale A --locale B for all ordered pairs of 6 (thorough: 10) locales and "none", 12 months,
 *       abbreviated and long names: output = B's names for the fields that the same tool
 *       prints numerically for the English input without locale options. */
#if defined HAVE_CONFIG_H
# include "config.h"
#endif
#include "dt-locale.c"

#define FS_NO_CLOCK_OVERRIDE
#define FS_NO_READ_OVERRIDE
#include "impl.h"
#include "explore.h"
#include "refcal.h"
#include "forksrv.h"

static volatile int asan_hits;
void
__asan_on_error(void)
{
	asan_hits++;
}

/* ------------------------------------------------------------------ model */
enum { T_LONG_WDAY, T_ABBR_WDAY, T_LONG_MON, T_ABBR_MON, NTAB };
static const int tab_n[NTAB] = {7, 7, 12, 12};
static const char *const tab_in_name[NTAB] = {"dut_long_wday", "dut_abbr_wday", "dut_long_mon", "dut_abbr_mon"};
static const char *const tab_out_name[NTAB] = {"duf_long_wday", "duf_abbr_wday", "duf_long_mon", "duf_abbr_mon"};
static const char *const tab_spec[NTAB] = {"%A", "%a", "%B", "%b"};

struct mloc_s {
	char name[40];
	const char *t[NTAB][13];	/* 1-based */
};
static struct mloc_s *mloc;	/* [0] = built in */
static int nmloc;
static char *lfile;
static size_t lfile_z;
static char lfile_name[1024];

static void
model_die(const char *what, int line)
{
	fprintf(stderr, "c20_locale: locale file reader: %s (line %d of %s)\n", what, line, lfile_name);
	exit(3);
}

/* reader 1: lines in groups of five: name, abbr wday x7, long wday x7, abbr mon x12, long mon x12; tab separated */
static void
model_load(void)
{
	FILE *f = fopen(lfile_name, "rb");
	long sz;
	int nlines = 0, line = 0;
	char *p, *e;

	if (f == NULL) {
		model_die("cannot open", 0);
	}
	fseek(f, 0, SEEK_END);
	sz = ftell(f);
	fseek(f, 0, SEEK_SET);
	lfile = malloc((size_t)sz + 1);
	if (fread(lfile, 1, (size_t)sz, f) != (size_t)sz) {
		model_die("short read", 0);
	}
	fclose(f);
	lfile[sz] = '\0';
	lfile_z = (size_t)sz;
	for (long i = 0; i < sz; i++) {
		nlines += lfile[i] == '\n';
	}
	if (sz == 0 || lfile[sz - 1] != '\n' || nlines % 5) {
		model_die("file does not consist of five-line records", nlines);
	}
	nmloc = nlines / 5 + 1;
	mloc = calloc((size_t)nmloc, sizeof(*mloc));
	/* built in */
	strcpy(mloc[0].name, "(built in)");
	for (int i = 1; i <= 7; i++) {
		mloc[0].t[T_LONG_WDAY][i] = rc_long_wday[i];
		mloc[0].t[T_ABBR_WDAY][i] = rc_abbr_wday[i];
	}
	for (int i = 1; i <= 12; i++) {
		mloc[0].t[T_LONG_MON][i] = rc_long_mon[i];
		mloc[0].t[T_ABBR_MON][i] = rc_abbr_mon[i];
	}
	p = lfile;
	for (int k = 1; k < nmloc; k++) {
		static const int order[4] = {T_ABBR_WDAY, T_LONG_WDAY, T_ABBR_MON, T_LONG_MON};
		e = strchr(p, '\n');
		line++;
		if ((size_t)(e - p) >= sizeof(mloc[k].name) || e == p || memchr(p, '\t', (size_t)(e - p))) {
			model_die("not a locale name", line);
		}
		memcpy(mloc[k].name, p, (size_t)(e - p));
		p = e + 1;
		for (int q = 0; q < 4; q++) {
			int t = order[q], n = 0;
			char *fld;
			e = strchr(p, '\n');
			line++;
			*e = '\0';
			fld = p;
			for (;;) {
				char *tabp = strchr(fld, '\t');
				if (tabp) {
					*tabp = '\0';
				}
				if (++n > tab_n[t]) {
					model_die("too many fields", line);
				}
				mloc[k].t[t][n] = fld;
				if (tabp == NULL) {
					break;
				}
				fld = tabp + 1;
			}
			if (n != tab_n[t]) {
				model_die("too few fields", line);
			}
			p = e + 1;
		}
	}
}

/* reader 2 (self-check): a name line is a line without a tab; the n-th field of the q-th
 * line after it is found by counting tabs in a fresh copy of the file */
static void
model_selfcheck(void)
{
	FILE *f = fopen(lfile_name, "rb");
	char *ln = NULL;
	size_t lz = 0;
	ssize_t l;
	int k = 0, q = 0, line = 0;
	static const int order[5] = {-1, T_ABBR_WDAY, T_LONG_WDAY, T_ABBR_MON, T_LONG_MON};

	if (f == NULL) {
		model_die("cannot reopen", 0);
	}
	while ((l = getline(&ln, &lz, f)) > 0) {
		line++;
		ln[--l] = '\0';
		if (strchr(ln, '\t') == NULL && q % 5 == 0) {
			k++;
			q = 1;
			if (k >= nmloc || strcmp(ln, mloc[k].name)) {
				model_die("second reader disagrees on a locale name", line);
			}
			continue;
		}
		if (q < 1 || q > 4) {
			model_die("second reader lost the record structure", line);
		}
		{
			int t = order[q], n = 1;
			const char *s = ln;
			for (const char *c = ln;; c++) {
				if (*c == '\t' || *c == '\0') {
					size_t len = (size_t)(c - s);
					if (n > tab_n[t] || strlen(mloc[k].t[t][n]) != len || memcmp(mloc[k].t[t][n], s, len)) {
						model_die("second reader disagrees on a field", line);
					}
					n++;
					s = c + 1;
					if (*c == '\0') {
						break;
					}
				}
			}
			if (n != tab_n[t] + 1) {
				model_die("second reader counts a different number of fields", line);
			}
		}
		q++;
		if (q == 5) {
			q = 0;
		}
	}
	free(ln);
	fclose(f);
	if (k != nmloc - 1) {
		model_die("second reader counts a different number of locales", line);
	}
	/* anchors known independently of the file's layout */
	{
		int de = -1, fr = -1;
		for (int i = 1; i < nmloc; i++) {
			if (!strcmp(mloc[i].name, "de_DE")) {
				de = i;
			} else if (!strcmp(mloc[i].name, "fr_FR")) {
				fr = i;
			}
		}
		if (de < 0 || fr < 0 || strcmp(mloc[de].t[T_ABBR_MON][12], "Dez") || strcmp(mloc[de].t[T_LONG_WDAY][7], "Sonntag") ||
		    strcmp(mloc[fr].t[T_LONG_MON][3], "mars") || strcmp(mloc[fr].t[T_LONG_WDAY][1], "lundi")) {
			model_die("anchor names (de_DE Dez/Sonntag, fr_FR mars/lundi) not found where expected", 0);
		}
	}
}

static int
loc_index(const char *name)
{
	for (int i = 1; i < nmloc; i++) {
		if (!strcmp(mloc[i].name, name)) {
			return i;
		}
	}
	fprintf(stderr, "c20_locale: locale %s is not in %s\n", name, lfile_name);
	exit(3);
}

/* ------------------------------------------------------------------ the real state */
static const char **
impl_tab(int out, int t)
{
	switch (t) {
	case T_LONG_WDAY: return out ? duf_long_wday : dut_long_wday;
	case T_ABBR_WDAY: return out ? duf_abbr_wday : dut_abbr_wday;
	case T_LONG_MON: return out ? duf_long_mon : dut_long_mon;
	default: return out ? duf_abbr_mon : dut_abbr_mon;
	}
}
static const char *const*
builtin_tab(int t)
{
	switch (t) {
	case T_LONG_WDAY: return __long_wday;
	case T_ABBR_WDAY: return __abbr_wday;
	case T_LONG_MON: return __long_mon;
	default: return __abbr_mon;
	}
}

/* the state a fresh process starts in (static initialisers of dt-locale.c); tables that
 * the previous history left allocated are leaked on purpose: freeing them here could
 * double-free what the implementation already freed and would blame the wrong case */
static void
impl_fresh(void)
{
	dut_long_wday = duf_long_wday = __long_wday;
	dut_abbr_wday = duf_abbr_wday = __abbr_wday;
	dut_long_mon = duf_long_mon = __long_mon;
	dut_abbr_mon = duf_abbr_mon = __abbr_mon;
	dut_rlong_wday = __rlong_wday;
	dut_rabbr_wday = __rabbr_wday;
	dut_rlong_mon = __rlong_mon;
	dut_rabbr_mon = __rabbr_mon;
}

/* does implementation table (out,t) hold the names of model locale L? */
static int
tab_holds(int out, int t, int L)
{
	const char **tb = impl_tab(out, t);
	if (tb == NULL) {
		return 0;
	}
	for (int i = 1; i <= tab_n[t]; i++) {
		if (tb[i] == NULL || strcmp(tb[i], mloc[L].t[t][i])) {
			return 0;
		}
	}
	return 1;
}

/* ------------------------------------------------------------------ operations */
enum { OP_SETI, OP_SETF };
struct op_s {
	int kind;	/* OP_SETI / OP_SETF */
	int L;		/* model locale, 0 = NULL argument (reset) */
};
struct mstate_s {
	int in, out;
};

static int
op_apply(struct op_s op, struct mstate_s *m)
{
	const char *arg = op.L ? mloc[op.L].name : NULL;
	int rc;
	EX_CTR(c_eval, "evaluations");
	++*c_eval;
	if (op.kind == OP_SETI) {
		rc = setilocale(arg);
		m->in = op.L;
	} else {
		rc = setflocale(arg);
		m->out = op.L;
	}
	return rc;
}

static const char*
op_text(struct op_s op, char *buf, size_t bsz)
{
	snprintf(buf, bsz, "%s(%s%s%s)", op.kind == OP_SETI ? "setilocale" : "setflocale",
		 op.L ? "\"" : "", op.L ? mloc[op.L].name : "NULL", op.L ? "\"" : "");
	return buf;
}
static const char*
op_kind_text(struct op_s op)
{
	return op.kind == OP_SETI ? (op.L ? "setilocale(L)" : "setilocale(NULL)") : (op.L ? "setflocale(L)" : "setflocale(NULL)");
}

/* what a non-conforming table holds instead, as a discrete label */
static const char*
holds_label(int out, int t, const int *cands, int ncands, const char *const *cand_label)
{
	if (impl_tab(out, t) == (const char**)builtin_tab(t)) {
		return "built-in";
	}
	for (int i = 0; i < ncands; i++) {
		if (cands[i] > 0 && tab_holds(out, t, cands[i])) {
			return cand_label[i];
		}
	}
	if (tab_holds(out, t, 0)) {
		return "english-names-not-the-built-in-table";
	}
	for (int L = 1; L < nmloc; L++) {
		if (tab_holds(out, t, L)) {
			return "record-of-another-locale";
		}
	}
	return "neither";
}

/* ------------------------------------------------------------------ lookup of one locale by one setter */
/* lookup_bad[fn][L]: setter fn (0 setilocale, 1 setflocale) called alone from the initial state
 * does not load the record of L.  Such locales are reported here (class "lookup ...") and left
 * out of the pair stage, which is about directions, not about finding the record. */
static uint8_t *lookup_bad[2];

static int
do_lookup(int fn, int L, int report, int replay)
{
	struct mstate_s m = {0, 0};
	char key[256], cas[64], cmd[256];
	int bad = 0, h0, rc;
	EX_CTR(c_trans, "transitions");

	impl_fresh();
	h0 = asan_hits;
	rc = op_apply((struct op_s){fn ? OP_SETF : OP_SETI, L}, &m);
	snprintf(cas, sizeof(cas), "lookup %d %d", fn, L);
	if (fn) {
		snprintf(cmd, sizeof(cmd), "dconv --locale %s -f '%%a %%A %%b %%B' 2012-03-04", mloc[L].name);
	} else {
		snprintf(cmd, sizeof(cmd), "dconv --from-locale %s -i '%%d %%B %%Y' '15 %s 2012'", mloc[L].name, mloc[L].t[T_LONG_MON][3]);
	}
	if (report) {
		++*c_trans;
	}
	if (rc || asan_hits != h0) {
		bad++;
		if (report) {
			snprintf(key, sizeof(key), "lookup fn=%s %s", fn ? "setflocale" : "setilocale", rc ? "setter-status" : "asan-report");
			ex_viol(key, L, cas, cmd, "%s(\"%s\") from the initial state: returned %d, %d AddressSanitizer report(s)",
				fn ? "setflocale" : "setilocale", mloc[L].name, rc, asan_hits - h0);
		}
	}
	for (int t = 0; t < NTAB; t++) {
		int ok = tab_holds(fn, t, L);
		if (!ok) {
			bad++;
			if (report) {
				const char *has = holds_label(fn, t, NULL, 0, NULL);
				const char **tb = impl_tab(fn, t);
				snprintf(key, sizeof(key), "lookup fn=%s table=%s holds=%s", fn ? "setflocale" : "setilocale",
					 fn ? tab_out_name[t] : tab_in_name[t], has);
				ex_viol(key, L, cas, cmd, "%s(\"%s\") from the initial state: %s[%d] is '%s', the record of %s in the locale file says '%s'",
					fn ? "setflocale" : "setilocale", mloc[L].name, fn ? tab_out_name[t] : tab_in_name[t], tab_n[t],
					tb && tb[tab_n[t]] ? tb[tab_n[t]] : "(null)", mloc[L].name, mloc[L].t[t][tab_n[t]]);
			}
		}
		if (replay) {
			printf("  %s: %s the names of %s (entry %d is '%s')\n", fn ? tab_out_name[t] : tab_in_name[t], ok ? "holds" : "DOES NOT hold",
			       mloc[L].name, tab_n[t], impl_tab(fn, t)[tab_n[t]]);
		}
	}
	return bad;
}

/* ------------------------------------------------------------------ parse / print through the public API */
/* is there an earlier entry of table T of locale L that the parser (first prefix match,
 * ASCII case folding) would take for TEXT?  Then parsing names of that table is ambiguous
 * by the table itself, which is C09's subject, not C20's. */
static int
ascii_lower(int c)
{
	return (c >= 'A' && c <= 'Z') ? c + 32 : c;
}
static int
earlier_prefix(int L, int t, int idx, const char *text)
{
	for (int i = 1; i < idx; i++) {
		const char *n = mloc[L].t[t][i];
		size_t k = 0;
		while (n[k] && ascii_lower((unsigned char)n[k]) == ascii_lower((unsigned char)text[k])) {
			k++;
		}
		if (n[k] == '\0') {
			return 1;
		}
	}
	return 0;
}

/* parse name IDX of table T of locale L with the input tables as they are: returns the
 * index the parser found, -1 unparsed, -2 skipped (ambiguous/empty name) */
static int
parse_name(int L, int t, int idx)
{
	char text[256], fmt[32], got[32];
	const char *name = mloc[L].t[t][idx];
	struct dt_dt_s v;
	EX_CTR(c_eval, "evaluations");

	if (*name == '\0') {
		return -2;
	}
	if (t == T_LONG_MON || t == T_ABBR_MON) {
		snprintf(text, sizeof(text), "%s 15 2012", name);
		snprintf(fmt, sizeof(fmt), "%s %%d %%Y", tab_spec[t]);
	} else {
		snprintf(text, sizeof(text), "%s 2012-W09", name);
		snprintf(fmt, sizeof(fmt), "%s %%G-W%%V", tab_spec[t]);
	}
	if (earlier_prefix(L, t, idx, text)) {
		return -2;
	}
	++*c_eval;
	v = dt_strpdt(text, fmt, NULL);
	if (dt_unk_p(v)) {
		return -1;
	}
	memset(got, 0, sizeof(got));
	dt_strfdt(got, sizeof(got), (t == T_LONG_MON || t == T_ABBR_MON) ? "%m" : "%u", v);
	if (!vf_all_digits(got)) {
		return -1;
	}
	{
		int n = atoi(got);
		if ((t == T_LONG_WDAY || t == T_ABBR_WDAY) && n == 0) {
			n = 7;		/* reading: Sunday 0|7 */
		}
		return n;
	}
}

/* print index IDX with specifier of table T; the text goes to BUF */
static void
print_name(int t, int idx, char *buf, size_t bsz)
{
	char text[32];
	struct dt_dt_s v;
	EX_CTR(c_eval, "evaluations");

	if (t == T_LONG_MON || t == T_ABBR_MON) {
		snprintf(text, sizeof(text), "2012-%02d-15", idx);
	} else {
		/* 2012-W09-1 .. 2012-W09-7 = 2012-02-27 .. 2012-03-04 */
		const struct rc_day *p = rc_get(rc_rd(2012, 2, 27) + idx - 1);
		snprintf(text, sizeof(text), "%04d-%02d-%02d", p->y, p->m, p->d);
		if (p->wd != idx) {
			fprintf(stderr, "c20_locale: reference calendar disagrees with itself on 2012-W09\n");
			exit(3);
		}
	}
	v = dt_strpdt(text, "%Y-%m-%d", NULL);
	memset(buf, 0, bsz);
	++*c_eval;
	dt_strfdt(buf, bsz - 1, tab_spec[t], v);
}

/* ------------------------------------------------------------------ (i) pairs */
enum { CALLS_IF, CALLS_FI };
static const char*
calls_text(int A, int B, int order)
{
	if (A && B) {
		return order == CALLS_IF ? "seti,setf" : "setf,seti";
	}
	return A ? "seti" : B ? "setf" : "none";
}

static int
do_pair(int A, int B, int order, int replay)
{
	struct mstate_s m = {0, 0};
	char key[256], cas[64], b1[64], b2[64], cmd[512];
	const int cands[2] = {A, B};
	int bad = 0, h0, rc1 = 0, rc2 = 0;
	double ord = (double)A * nmloc + B;
	const char *calls = calls_text(A, B, order);
	EX_CTR(c_states, "states");
	EX_CTR(c_trans, "transitions");
	EX_CTR(c_skip, "skipped:name that has an earlier entry of its own table as a prefix, or is empty (parser ambiguity is C09's subject)");
	EX_CTR(c_skipl, "skipped:pair with a locale whose record the setter alone does not find (reported as class lookup)");

	if ((A && lookup_bad[0][A]) || (B && lookup_bad[1][B])) {
		++*c_skipl;
		return 0;
	}
	impl_fresh();
	h0 = asan_hits;
	if (order == CALLS_IF) {
		if (A) {
			rc1 = op_apply((struct op_s){OP_SETI, A}, &m);
			++*c_trans;
		}
		if (B) {
			rc2 = op_apply((struct op_s){OP_SETF, B}, &m);
			++*c_trans;
		}
	} else {
		if (B) {
			rc2 = op_apply((struct op_s){OP_SETF, B}, &m);
			++*c_trans;
		}
		if (A) {
			rc1 = op_apply((struct op_s){OP_SETI, A}, &m);
			++*c_trans;
		}
	}
	++*c_states;
	snprintf(cas, sizeof(cas), "pair %d %d %d", A, B, order);
	/* the command a user would type; dconv calls setflocale first, the others setilocale first */
	snprintf(cmd, sizeof(cmd), "%s%s%s%s%s -i '%%d %%b %%Y' -f '%%d %%b %%Y' '15 %s 2012'%s", order == CALLS_IF ? "dadd" : "dconv",
		 A ? " --from-locale " : "", A ? mloc[A].name : "", B ? " --locale " : "", B ? mloc[B].name : "",
		 mloc[A].t[T_ABBR_MON][12], order == CALLS_IF ? " +0d" : "");
	if (rc1 || rc2) {
		snprintf(key, sizeof(key), "pair calls=%s setter-status", calls);
		ex_viol(key, ord, cas, cmd, "setilocale(%s) returned %d, setflocale(%s) returned %d", mloc[A].name, rc1, mloc[B].name, rc2);
		bad++;
	}
	if (asan_hits != h0) {
		snprintf(key, sizeof(key), "pair calls=%s asan-report", calls);
		ex_viol(key, ord, cas, cmd, "%d AddressSanitizer report(s) while setting input locale %s and output locale %s (%s)",
			asan_hits - h0, mloc[A].name, mloc[B].name, calls);
		bad++;
		if (replay) {
			printf("  %d AddressSanitizer report(s)\n", asan_hits - h0);
		}
	}
	for (int out = 0; out < 2; out++) {
		int want = out ? m.out : m.in;
		static const char *const lab_in[2] = {"own", "output-locale"};
		static const char *const lab_out[2] = {"input-locale", "own"};
		for (int t = 0; t < NTAB; t++) {
			int ok = tab_holds(out, t, want);
			if (!ok) {
				const char *has = holds_label(out, t, cands, 2, out ? lab_out : lab_in);
				const char **tb = impl_tab(out, t);
				snprintf(key, sizeof(key), "pair calls=%s table=%s holds=%s", calls, out ? tab_out_name[t] : tab_in_name[t], has);
				ex_viol(key, ord, cas, cmd, "input locale %s, output locale %s (%s): %s[%d] is '%s', the model says '%s' (names of %s)",
					mloc[A].name, mloc[B].name, calls, out ? tab_out_name[t] : tab_in_name[t], tab_n[t],
					tb && tb[tab_n[t]] ? tb[tab_n[t]] : "(null)", mloc[want].t[t][tab_n[t]], mloc[want].name);
				bad++;
			}
			if (replay) {
				printf("  %s: %s the names of %s\n", out ? tab_out_name[t] : tab_in_name[t], ok ? "holds" : "DOES NOT hold", mloc[want].name);
			}
		}
	}
	/* parse every name of the input locale, print every index in the output locale */
	for (int t = 0; t < NTAB; t++) {
		for (int i = 1; i <= tab_n[t]; i++) {
			int got = parse_name(m.in, t, i);
			char buf[128];
			++*c_trans;
			if (got == -2) {
				++*c_skip;
			} else if (got != i) {
				snprintf(key, sizeof(key), "pair calls=%s parse spec=%s", calls, tab_spec[t]);
				ex_viol(key, ord, cas, cmd, "input locale %s, output locale %s (%s): '%s' (%s no. %d of %s) parsed with %s gives %d (-1: not accepted)",
					mloc[A].name, mloc[B].name, calls, mloc[m.in].t[t][i], t >= T_LONG_MON ? "month" : "weekday", i, mloc[m.in].name,
					tab_spec[t], got);
				bad++;
				if (replay) {
					printf("  parse '%s' with %s: got %d, want %d\n", mloc[m.in].t[t][i], tab_spec[t], got, i);
				}
			}
			print_name(t, i, buf, sizeof(buf));
			++*c_trans;
			ex_outcome(ex_hash_mix(ex_hash(buf, strlen(buf)), (uint64_t)t));
			if (strcmp(buf, mloc[m.out].t[t][i])) {
				const char *has = !strcmp(buf, mloc[0].t[t][i]) ? "built-in" : (A && !strcmp(buf, mloc[A].t[t][i])) ? "input-locale" : "neither";
				snprintf(key, sizeof(key), "pair calls=%s print spec=%s prints=%s", calls, tab_spec[t], has);
				ex_viol(key, ord, cas, cmd, "input locale %s, output locale %s (%s): %s no. %d printed with %s gives '%s', %s calls it '%s'",
					mloc[A].name, mloc[B].name, calls, t >= T_LONG_MON ? "month" : "weekday", i, tab_spec[t], buf,
					mloc[m.out].name, mloc[m.out].t[t][i]);
				bad++;
				if (replay) {
					printf("  print %d with %s: got '%s', want '%s'\n", i, tab_spec[t], buf, mloc[m.out].t[t][i]);
				}
			}
		}
	}
	if (asan_hits != h0 && !bad) {
		bad++;
	}
	(void)b1;
	(void)b2;
	return bad;
}

/* ------------------------------------------------------------------ (ii) sequences, (iii) closure */
static int seq_loc[3];		/* the three model locales */
static int seq_maxlen;		/* 4 (quick) / 5 (thorough) */
#define NOPS	8
static struct op_s
op_of(int code)
{
	/* 0..2 seti(L1..3), 3 seti(NULL), 4..6 setf(L1..3), 7 setf(NULL) */
	struct op_s o;
	o.kind = code < 4 ? OP_SETI : OP_SETF;
	o.L = (code % 4) < 3 ? seq_loc[code % 4] : 0;
	return o;
}

/* canonical real state: for each of the 8 tables which of {built in, L1, L2, L3} it holds (9: none of them) */
static uint32_t
impl_canon(void)
{
	uint32_t s = 0;
	for (int out = 0; out < 2; out++) {
		for (int t = 0; t < NTAB; t++) {
			unsigned int lab = 9;
			if (tab_holds(out, t, 0)) {
				lab = 0;
			} else {
				for (int i = 0; i < 3; i++) {
					if (tab_holds(out, t, seq_loc[i])) {
						lab = (unsigned)i + 1;
						break;
					}
				}
			}
			s = s * 10 + lab;
		}
	}
	return s;
}

/* run the operation codes OPS[0..n) from the fresh state, judging every step whose index is >= JUDGE_FROM.
 * KIND is "seq" or "closure". */
static int
do_ops(const char *kind, const int *ops, int n, int judge_from, int replay)
{
	struct mstate_s m = {0, 0};
	int conf[2][NTAB];
	char key[256], cas[128], hist[512], b[64];
	int bad = 0;
	size_t hk = 0;
	double ord;
	EX_CTR(c_trans, "transitions");

	impl_fresh();
	for (int out = 0; out < 2; out++) {
		for (int t = 0; t < NTAB; t++) {
			conf[out][t] = 1;
		}
	}
	hist[0] = '\0';
	/* ordered coordinate: shortlex rank of the operation sequence */
	ord = 0;
	for (int i = 0; i < n; i++) {
		ord = ord * NOPS + ops[i] + 1;
	}
	{
		size_t ck = (size_t)snprintf(cas, sizeof(cas), "%s", kind);
		for (int i = 0; i < n; i++) {
			ck += (size_t)snprintf(cas + ck, sizeof(cas) - ck, " %d", ops[i]);
		}
	}
	for (int i = 0; i < n; i++) {
		struct op_s op = op_of(ops[i]);
		struct mstate_s before = m;
		int h0 = asan_hits, rc;
		const int cands[3] = {seq_loc[0], seq_loc[1], seq_loc[2]};
		static const char *const lab[3] = {"another-locale", "another-locale", "another-locale"};

		rc = op_apply(op, &m);
		hk += (size_t)snprintf(hist + hk, sizeof(hist) - hk, "%s%s", i ? "; " : "", op_text(op, b, sizeof(b)));
		if (i >= judge_from) {
			++*c_trans;
		}
		if (replay) {
			printf("  %s -> %d, model (in=%s, out=%s), %d ASan report(s)\n", b, rc, mloc[m.in].name, mloc[m.out].name, asan_hits - h0);
		}
		if (i >= judge_from && asan_hits != h0) {
			snprintf(key, sizeof(key), "ops asan-report op=%s input-was=%s output-was=%s", op_kind_text(op),
				 before.in ? "set" : "built-in", before.out ? "set" : "built-in");
			ex_viol(key, ord, cas, NULL, "AddressSanitizer reports an error in the last call of: %s", hist);
			bad++;
		}
		if (i >= judge_from && rc) {
			snprintf(key, sizeof(key), "ops setter-status op=%s", op_kind_text(op));
			ex_viol(key, ord, cas, NULL, "the last call of: %s returned %d", hist, rc);
			bad++;
		}
		for (int out = 0; out < 2; out++) {
			int want = out ? m.out : m.in;
			for (int t = 0; t < NTAB; t++) {
				int ok = tab_holds(out, t, want);
				if (!ok && conf[out][t] && i >= judge_from) {
					/* a new divergence: this operation broke this table */
					const char *has = holds_label(out, t, cands, 3, lab);
					snprintf(key, sizeof(key), "ops op=%s table=%s should-hold=%s holds=%s", op_kind_text(op),
						 out ? tab_out_name[t] : tab_in_name[t], want ? "locale" : "built-in", has);
					ex_viol(key, ord, cas, NULL, "after %s: %s should hold the names of %s and does not (entry %d is '%s')",
						hist, out ? tab_out_name[t] : tab_in_name[t], mloc[want].name, tab_n[t],
						impl_tab(out, t)[tab_n[t]] ? impl_tab(out, t)[tab_n[t]] : "(null)");
					bad++;
					if (replay) {
						printf("    %s no longer conforms (%s)\n", out ? tab_out_name[t] : tab_in_name[t], has);
					}
				}
				conf[out][t] = ok;
			}
		}
	}
	return bad;
}

static void
do_sequences(int first_op)
{
	/* all sequences of length 1..seq_maxlen starting with FIRST_OP, shortest first */
	int ops[8];
	EX_CTR(c_traces, "traces");
	EX_CTR(c_states, "states");
	ops[0] = first_op;
	for (int len = 1; len <= seq_maxlen; len++) {
		int total = 1;
		for (int i = 1; i < len; i++) {
			total *= NOPS;
		}
		for (int code = 0; code < total; code++) {
			int c = code;
			for (int i = len - 1; i >= 1; i--) {
				ops[i] = c % NOPS;
				c /= NOPS;
			}
			/* judge only the last step: the prefixes are sequences of their own */
			do_ops("seq", ops, len, len - 1, 0);
			++*c_traces;
			++*c_states;
			ex_outcome(ex_hash_mix(impl_canon(), 0x5e9));
		}
	}
}

struct cstate_s {
	uint32_t canon;
	int len;
	int ops[12];
};
static void
do_closure(void)
{
	static struct cstate_s q[4096];
	int nq = 0, head = 0, closed = 1, ntr = 0, maxlen = 0;
	EX_CTR(c_states, "states");
	EX_CTR(c_traces, "traces");

	impl_fresh();
	q[nq].canon = impl_canon();
	q[nq].len = 0;
	nq++;
	while (head < nq) {
		struct cstate_s s = q[head++];
		if (s.len >= 10) {
			closed = 0;
			continue;
		}
		for (int o = 0; o < NOPS; o++) {
			int ops[12];
			uint32_t c;
			int known = 0;
			memcpy(ops, s.ops, sizeof(int) * (size_t)s.len);
			ops[s.len] = o;
			do_ops("closure", ops, s.len + 1, s.len, 0);
			++*c_traces;
			ntr++;
			c = impl_canon();
			for (int i = 0; i < nq; i++) {
				if (q[i].canon == c) {
					known = 1;
					break;
				}
			}
			if (!known) {
				if (nq >= 4096) {
					closed = 0;
					break;
				}
				q[nq].canon = c;
				q[nq].len = s.len + 1;
				memcpy(q[nq].ops, ops, sizeof(int) * (size_t)(s.len + 1));
				if (s.len + 1 > maxlen) {
					maxlen = s.len + 1;
				}
				nq++;
				++*c_states;
				ex_outcome(ex_hash_mix(c, 0xc105));
			}
		}
	}
	ex_meta("closure", "real state (which of {built in, %s, %s, %s} each of the 8 tables holds) under 8 operations: %d states, %d transitions, "
		"longest shortest history %d, %s; the model has 16 states",
		mloc[seq_loc[0]].name, mloc[seq_loc[1]].name, mloc[seq_loc[2]].name, nq, ntr, maxlen,
		closed ? "closed (no new state from any reached state: covers histories of any length)" : "NOT closed within the limits");
	{
		EX_CTR(c_cl, "closure_states");
		EX_CTR(c_clo, "closure_closed");
		*c_cl += (uint64_t)nq;
		*c_clo += (uint64_t)closed;
	}
}

/* ------------------------------------------------------------------ (iv) the tools' main() */
static const char *const main_tools[4] = {"dconv", "dadd", "dround", "dseq"};
static const char *const main_loc_names[10] = {"de_DE", "fr_FR", "tr_TR", "ja_JP", "ru_RU", "el_GR", /* thorough */ "zh_CN", "ar_SA", "hi_IN", "pl_PL"};
#define NMAINLOC_QUICK	6
#define NMAINLOC_ALL	10
static int main_loc[NMAINLOC_ALL + 1];		/* [0] = none */
static int nmainloc;				/* incl. none */
static char tree_dir[1024];

static const char *exec_path;
static int
exec_main(int argc, char **argv)
{
	(void)argc;
	execv(exec_path, argv);
	_exit(127);
}

/* run TOOL with (A, B) on month M; LONGP: long names.  NUMERIC: English input, numeric
 * output, no locale options (the baseline).  Output into R. */
static void
run_tool(int tool, int A, int B, int m, int longp, int numeric, struct fs_result *r, char *cmd, size_t cmdsz)
{
	const char *av[20];
	char in1[128], in2[128], ifmt[32], ofmt[64], path[1100], envl[1100];
	const char *envv[4];
	struct fs_opts o;
	int ac = 0, t = longp ? T_LONG_MON : T_ABBR_MON;
	size_t k = 0;
	EX_CTR(c_eval, "evaluations");

	snprintf(path, sizeof(path), "%s/src/%s", tree_dir, main_tools[tool]);
	exec_path = path;
	snprintf(ifmt, sizeof(ifmt), "%%d %s %%Y", tab_spec[t]);
	if (numeric) {
		snprintf(ofmt, sizeof(ofmt), "%%u %%d %%m %%Y");
	} else {
		snprintf(ofmt, sizeof(ofmt), "%s %%d %s %%Y", longp ? "%A" : "%a", tab_spec[t]);
	}
	snprintf(in1, sizeof(in1), "15 %s 2012", mloc[numeric ? 0 : A].t[t][m]);
	snprintf(in2, sizeof(in2), "16 %s 2012", mloc[numeric ? 0 : A].t[t][m]);
	av[ac++] = main_tools[tool];
	if (!numeric && A) {
		av[ac++] = "--from-locale";
		av[ac++] = mloc[A].name;
	}
	if (!numeric && B) {
		av[ac++] = "--locale";
		av[ac++] = mloc[B].name;
	}
	av[ac++] = "-i";
	av[ac++] = ifmt;
	av[ac++] = "-f";
	av[ac++] = ofmt;
	av[ac++] = in1;
	switch (tool) {
	case 1: av[ac++] = "+1d"; break;
	case 2: av[ac++] = "16"; break;
	case 3: av[ac++] = in2; break;
	default: break;
	}
	av[ac] = NULL;
	k += (size_t)snprintf(cmd + k, cmdsz - k, "LOCALE_FILE=/repo/data/locale");
	for (int i = 0; i < ac; i++) {
		k += (size_t)snprintf(cmd + k, cmdsz - k, i && av[i][0] != '-' && av[i][0] != '+' ? " '%s'" : " %s", av[i]);
	}
	memset(&o, 0, sizeof(o));
	snprintf(envl, sizeof(envl), "LOCALE_FILE=%s", lfile_name);
	envv[0] = envl;
	envv[1] = "ASAN_OPTIONS=halt_on_error=0:detect_leaks=0:symbolize=0:print_summary=0:print_legend=0:allocator_may_return_null=1";
	envv[2] = "PATH=/usr/bin:/bin";
	envv[3] = NULL;
	o.env = envv;
	o.timeout_s = 20;
	++*c_eval;
	fs_run(exec_main, ac, av, &o, r);
	if (r->timed_out) {
		/* busy machine?  once more with ten times the limit before it counts */
		fs_free(r);
		o.timeout_s = 200;
		fs_run(exec_main, ac, av, &o, r);
	}
}

static int
count_asan(const char *err)
{
	int n = 0;
	for (const char *p = err; p && (p = strstr(p, "ERROR: AddressSanitizer")); p++) {
		n++;
	}
	return n;
}

static int
do_main_case(int tool, int ia, int ib, int m, int longp, int replay)
{
	static char base[4][13][2][64];		/* baseline numeric outputs, computed once per (tool, month, long) */
	static int have[4][13][2];
	static int base_asan[4][13][2];		/* AddressSanitizer reports of the baseline run (not about locales) */
	int A = main_loc[ia], B = main_loc[ib];
	int t = longp ? T_LONG_MON : T_ABBR_MON, tw = longp ? T_LONG_WDAY : T_ABBR_WDAY;
	struct fs_result r;
	char cmd[1024], bcmd[1024], key[256], cas[64], exp[512], text[128];
	const char *bp;
	size_t ek = 0;
	int bad = 0;
	double ord = (double)ia * (NMAINLOC_ALL + 1) + ib;
	EX_CTR(c_trans, "transitions");
	EX_CTR(c_skip, "skipped:name that has an earlier entry of its own table as a prefix, or is empty (parser ambiguity is C09's subject)");
	EX_CTR(c_bind, "cli_binding_replays");

	if ((A && lookup_bad[0][A]) || (B && lookup_bad[1][B])) {
		EX_CTR(c_skipl, "skipped:pair with a locale whose record the setter alone does not find (reported as class lookup)");
		++*c_skipl;
		return 0;
	}
	snprintf(text, sizeof(text), "%s 2012", mloc[A].t[t][m]);
	if (mloc[A].t[t][m][0] == '\0' || earlier_prefix(A, t, m, text)) {
		++*c_skip;
		return 0;
	}
	if (!have[tool][m][longp]) {
		run_tool(tool, 0, 0, m, longp, 1, &r, bcmd, sizeof(bcmd));
		if (!r.exited || r.status || r.outlen == 0 || r.outlen >= sizeof(base[0][0][0])) {
			/* the tool cannot do the English case: nothing to compare localised runs with */
			fprintf(stderr, "c20_locale: baseline run failed: %s -> %s '%s' / %s\n", bcmd, fs_ending(&r), r.out, r.err);
			exit(3);
		}
		memcpy(base[tool][m][longp], r.out, r.outlen + 1);
		have[tool][m][longp] = 1;
		base_asan[tool][m][longp] = count_asan(r.err);
		fs_free(&r);
	}
	/* expected text: one line per baseline line "u d m Y" */
	bp = base[tool][m][longp];
	while (*bp) {
		int u, d, mm, y, n = 0;
		if (sscanf(bp, "%d %d %d %d\n%n", &u, &d, &mm, &y, &n) != 4 || n == 0 || u < 0 || u > 7 || mm < 1 || mm > 12) {
			fprintf(stderr, "c20_locale: baseline output of %s not understood: '%s'\n", main_tools[tool], base[tool][m][longp]);
			exit(3);
		}
		if (u == 0) {
			u = 7;
		}
		ek += (size_t)snprintf(exp + ek, sizeof(exp) - ek, "%s %02d %s %04d\n", mloc[B].t[tw][u], d, mloc[B].t[t][mm], y);
		bp += n;
	}
	run_tool(tool, A, B, m, longp, 0, &r, cmd, sizeof(cmd));
	++*c_trans;
	++*c_bind;
	ex_outcome(ex_hash(r.out, r.outlen));
	snprintf(cas, sizeof(cas), "main %d %d %d %d %d", tool, ia, ib, m, longp);
	if (count_asan(r.err) > base_asan[tool][m][longp]) {
		/* reading: reports that the same tool also raises without any locale option are C10's subject */
		snprintf(key, sizeof(key), "main tool=%s from-locale=%s locale=%s asan-report", main_tools[tool], A ? "given" : "none", B ? "given" : "none");
		ex_viol(key, ord, cas, cmd, "%d AddressSanitizer report(s) in %s, %d without the locale options: %.300s", count_asan(r.err), main_tools[tool],
			base_asan[tool][m][longp], r.err);
		bad++;
	} else if (base_asan[tool][m][longp]) {
		EX_CTR(c_oth, "main_runs_with_asan_reports_also_present_without_locale_options");
		++*c_oth;
	}
	if (!r.exited || r.status || strcmp(r.out, exp)) {
		const char *oc = (!r.exited) ? "killed" : r.outlen == 0 ? "no-output" : "other-text";
		snprintf(key, sizeof(key), "main tool=%s from-locale=%s locale=%s spec=%s outcome=%s", main_tools[tool],
			 A ? "given" : "none", B ? "given" : "none", tab_spec[t], oc);
		ex_viol(key, ord, cas, cmd, "month %d, input names of %s, output names of %s: %s [%s] prints '%s' (stderr '%.120s'), expected '%s' "
			"(= the fields the tool prints for the English input, in the output locale's names)",
			m, mloc[A].name, mloc[B].name, main_tools[tool], fs_ending(&r), r.out, r.err, exp);
		bad++;
	}
	if (replay) {
		printf("  %s\n  -> [%s] '%s' stderr '%.200s'\n  expected '%s'\n", cmd, fs_ending(&r), r.out, r.err, exp);
	}
	if (ex_want_sample()) {
		ex_sample("%s -> '%s'", cmd, r.out);
	}
	fs_free(&r);
	return bad;
}

#include "c20_held_stream.h"

/* ------------------------------------------------------------------ main */
int
main(int argc, char *argv[])
{
	int nl, npair_loc;
	EX_CTR(c_traces, "traces");
	EX_CTR(c_nontriv, "nontrivial");

	ex_init(argc, argv);
	rc_selfcheck();
	snprintf(tree_dir, sizeof(tree_dir), "%s", ex.tree ? ex.tree : VERIF_TREE);
	snprintf(lfile_name, sizeof(lfile_name), "%s/data/locale", tree_dir);
	setenv("LOCALE_FILE", lfile_name, 1);
	model_load();
	model_selfcheck();
	seq_loc[0] = loc_index("de_DE");
	seq_loc[1] = loc_index("fr_FR");
	seq_loc[2] = loc_index("tr_TR");
	nmainloc = (ex.thorough ? NMAINLOC_ALL : NMAINLOC_QUICK) + 1;
	seq_maxlen = ex.thorough ? 5 : 4;
	for (int i = 0; i + 1 < nmainloc; i++) {
		main_loc[i + 1] = loc_index(main_loc_names[i]);
	}
	nl = nmloc;		/* 274 locales + none */
	npair_loc = nl;
	lookup_bad[0] = calloc((size_t)nl, 1);
	lookup_bad[1] = calloc((size_t)nl, 1);
	for (int L = 1; L < nl; L++) {
		lookup_bad[0][L] = do_lookup(0, L, 0, 0) != 0;
		lookup_bad[1][L] = do_lookup(1, L, 0, 0) != 0;
	}
	if (ex.worker == 0 && !ex.cas) {
		/* how much of the shipped data the prefix reading leaves out (C09's quantifier: prefix-free locales) */
		EX_CTR(c_sh, "names_with_an_earlier_entry_of_their_table_as_prefix");
		EX_CTR(c_shl, "locales_with_such_names");
		for (int L = 1; L < nl; L++) {
			int any = 0;
			for (int t = 0; t < NTAB; t++) {
				for (int i = 2; i <= tab_n[t]; i++) {
					if (earlier_prefix(L, t, i, mloc[L].t[t][i])) {
						++*c_sh;
						any = 1;
					}
				}
			}
			*c_shl += (uint64_t)any;
		}
	}
	ex_wd_init(1000);
	held_baseline();
	stream_baseline();
	leak_baseline();

	if (ex.cas) {
		int a, b, c, d, e;
		if (sscanf(ex.cas, "pair %d %d %d", &a, &b, &c) == 3 && a >= 0 && a < nl && b >= 0 && b < nl) {
			int f = do_pair(a, b, c, 1);
			return ex_replay_result(f != 0, "pair input=%s output=%s calls=%s", mloc[a].name, mloc[b].name, calls_text(a, b, c));
		}
		if (sscanf(ex.cas, "lookup %d %d", &a, &b) == 2 && (a == 0 || a == 1) && b >= 1 && b < nl) {
			int f = do_lookup(a, b, 0, 1);
			return ex_replay_result(f != 0, "%s(\"%s\") from the initial state", a ? "setflocale" : "setilocale", mloc[b].name);
		}
		if (sscanf(ex.cas, "held %d %d", &a, &b) == 2 && a >= 1 && a < nl && b >= 0 && b < NHELD) {
			int f = do_held_lib(a, b, 1);
			return ex_replay_result(f != 0, "'%s' printed under --locale %s", held[b].text, mloc[a].name);
		}
		if (sscanf(ex.cas, "heldmain %d %d", &a, &b) == 2 && (a == 0 || a == 1) && b >= 1 && b < nl) {
			const char *k = strrchr(ex.cas, ' ');
			int f = do_held_main(a, b, k ? k + 1 : NULL, 1);
			return ex_replay_result(f != 0, "%s --locale %s on held values %s", held_tools[a], mloc[b].name, k ? k + 1 : "");
		}
		if (sscanf(ex.cas, "stream %d %d", &a, &b) == 2 && a >= 1 && a < nl && b >= 0 && b < NSFMT) {
			int f = do_stream_lib(a, b, 1);
			return ex_replay_result(f != 0, "stream search under --from-locale %s, formats %s", mloc[a].name, sfmts[b].label);
		}
		if (sscanf(ex.cas, "leak %d %d", &a, &b) == 2 && a >= 1 && a < nl && b >= 0 && b < NLEAKIN) {
			int f = do_leak_lib(a, b, 1);
			return ex_replay_result(f != 0, "output locale %s, input locale %s: reading must be as without the output locale", mloc[a].name, mloc[leak_in[b]].name);
		}
		if (sscanf(ex.cas, "leakmain %d", &a) == 1 && a >= 1 && a < nl) {
			int f = do_leak_main(a, 1);
			return ex_replay_result(f != 0, "binaries with --locale %s against the runs without", mloc[a].name);
		}
		if (sscanf(ex.cas, "streammain %d", &a) == 1 && a >= 1 && a < nl) {
			int f = do_stream_main(a, 1);
			return ex_replay_result(f != 0, "binaries on stdin under --from-locale %s", mloc[a].name);
		}
		if (!strncmp(ex.cas, "seq", 3) || !strncmp(ex.cas, "closure", 7)) {
			int ops[12], n = 0, f;
			const char *p = strchr(ex.cas, ' ');
			while (p && n < 12) {
				ops[n] = atoi(p + 1);
				if (ops[n] < 0 || ops[n] >= NOPS) {
					return ex_replay_result(1, "bad case string '%s'", ex.cas);
				}
				n++;
				p = strchr(p + 1, ' ');
			}
			f = do_ops(ex.cas[0] == 's' ? "seq" : "closure", ops, n, n - 1, 1);
			return ex_replay_result(f != 0, "%d operations from the initial state, last one judged", n);
		}
		if (sscanf(ex.cas, "main %d %d %d %d %d", &a, &b, &c, &d, &e) == 5 && a >= 0 && a < 4 && b >= 0 && b < nmainloc && c >= 0 && c < nmainloc &&
		    d >= 1 && d <= 12) {
			int f = do_main_case(a, b, c, d, !!e, 1);
			return ex_replay_result(f != 0, "%s from-locale=%s locale=%s month %d", main_tools[a], mloc[main_loc[b]].name, mloc[main_loc[c]].name, d);
		}
		return ex_replay_result(1, "bad case string '%s'", ex.cas);
	}

	ex_meta("rule", "model: state = (input locale, output locale) over the %d shipped locales and 'built in'; setilocale/setflocale set or (NULL) reset their own "
		"component only. Conformance in every reached state: the four dut_* tables hold the input locale's names, the four duf_* tables the output locale's "
		"(compared by content, entries 1..7 / 1..12), every name of the input locale parses to its index (dt_strpdt, '%%b %%d %%Y' and '%%a %%G-W%%V'), every index "
		"prints as the output locale's name (dt_strfdt). (0) lookup: each setter alone with each shipped locale loads that locale's record (a locale failing this is "
		"reported once as class 'lookup' and left out of the pairs). (i) all ordered pairs incl. 'none' in both call orders from the initial state; (ii) all operation sequences "
		"of length <= 4 over 8 operations (3 locales + NULL for each setter), last step judged (prefixes are sequences of their own); (iii) closure of the real "
		"8-table state; (iv) binaries dconv dadd dround dseq with --from-locale A --locale B, all ordered pairs of a locale list + none x 12 months x abbreviated/long: output equals "
		"the fields the same tool prints numerically for the English input, spelled in B's names. ASan reports during any step are violations "
		"(in (iv): only reports beyond those the same tool raises without locale options). "
		"(v) held values: every shipped locale as output locale x %d values in every held representation incl. weekday slot 0 (ymcw/ywd weekday 0, time of day) and month slot 0 "
		"(time of day, month 0, year alone) x %%a %%A %%b %%B: no signal, no ASan report, a slot >= 1 prints the locale's name; binaries dconv (dadd thorough): same exit status and "
		"number of lines as without --locale (what a locale prints for slot 0 is open: skipped and counted). (vi) stream search: every shipped locale as input locale x every name x "
		"%d format shapes (name first, name first + separator, after separator, after digits, after dash): dt_io_find_strpdt2 on the line and inside 'foo .. bar' gives the value "
		"that dt_io_strpdt gives for the argument; (format, slot) pairs not found with the English names either, and names beginning with a blank, are skipped and counted; "
		"binaries dconv (stdin, -S), dgrep, dadd against dconv's argument form for name-first formats. "
		"Readings: names that have an earlier entry of their own table as a prefix, or are empty, are skipped for parsing (ambiguity of the table is C09's subject); "
		"Sunday 0|7. non-trivial = pair with two different locales given (both directions set, differently)", nmloc - 1, NHELD, NSFMT);
	ex_meta("bound", "(0) %d locales x 2 setters; (i) %d x %d ordered pairs x 2 call orders (both tiers); (ii) all sequences of length <= %d (%d) over 8 operations "
		"{seti, setf} x {de_DE, fr_FR, tr_TR, NULL}; (iii) closure, depth limit 10; (iv) 4 tools x %d x %d ordered pairs (%d locales + none) x 12 months x 2 name lengths = %d runs; "
		"(v) %d locales x %d held values x 4 specifiers (library), x 17 value groups (dconv%s); (vi) %d locales x 38 names x %d formats x 2 forms (library), "
		"%s locales x 2 name-first formats x 4 tables x 4 stdin forms (binaries)",
		nmloc - 1, npair_loc, npair_loc, seq_maxlen, ex.thorough ? 37448 : 4680, nmainloc, nmainloc, nmainloc - 1, 4 * nmainloc * nmainloc * 24,
		nmloc - 1, NHELD, ex.thorough ? ", dadd" : "", nmloc - 1, NSFMT, ex.thorough ? "all" : "10");
	ex_meta("binding", "(iv) runs the binaries <tree>/src/{dconv,dadd,dround,dseq} of the same asan build; its runs are counted as cli_binding_replays");

	/* slices: 0 closure; [1, 9) sequences by first operation; [9, S0) main() runs by (tool, input locale);
	 * [S0, S0 + nl) pairs by input locale */
	const int S0 = 9 + 4 * nmainloc;
	for (int s = 0; s < S0 + 2 * nl && !ex_expired(); s++) {
		if (!ex_mine((uint64_t)s)) {
			continue;
		}
		if (s >= S0 + nl) {
			/* (v), (vi): one slice per locale */
			int L = s - (S0 + nl), sub = ex.thorough;
			static const char *const quick_sub[] = {"es_ES", "cs_CZ", "vi_VN", "zh_CN"};
			if (L == 0) {
				continue;
			}
			for (int i = 1; i < nmainloc; i++) {
				sub |= main_loc[i] == L;
			}
			for (int i = 0; i < 4; i++) {
				sub |= !strcmp(mloc[L].name, quick_sub[i]);
			}
			do_held_lib(L, -1, 0);
			do_stream_lib(L, -1, 0);
			do_held_main(0, L, NULL, 0);
			if (ex.thorough) {
				do_held_main(1, L, NULL, 0);
			}
			if (sub) {
				do_stream_main(L, 0);
			}
			do_leak_lib(L, -1, 0);
			if (ex.thorough || !strcmp(mloc[L].name, "ja_JP") || !strcmp(mloc[L].name, "ru_RU") || !strcmp(mloc[L].name, "de_DE") ||
			    !strcmp(mloc[L].name, "fr_FR") || !strcmp(mloc[L].name, "zh_CN") || !strcmp(mloc[L].name, "el_GR")) {
				do_leak_main(L, 0);
			}
			++*c_traces;
			if (ex_want_sample()) {
				ex_sample("--locale %s: %d held values x %%a %%A %%b %%B (library and dconv); --from-locale %s: 38 names x %d formats, argument form vs stream search",
					  mloc[L].name, NHELD, mloc[L].name, NSFMT);
			}
			continue;
		}
		if (s == 0) {
			do_closure();
		} else if (s < 9) {
			do_sequences(s - 1);
		} else if (s < S0) {
			int k = s - 9, tool = k / nmainloc, ia = k % nmainloc;
			for (int ib = 0; ib < nmainloc && !ex_expired(); ib++) {
				for (int m = 1; m <= 12; m++) {
					for (int lp = 0; lp < 2; lp++) {
						do_main_case(tool, ia, ib, m, lp, 0);
					}
				}
				++*c_traces;
				if (ia && ib && ia != ib) {
					++*c_nontriv;
				}
			}
		} else {
			int A = s - S0;
			if (A) {
				do_lookup(0, A, 1, 0);
				do_lookup(1, A, 1, 0);
			}
			for (int B = 0; B < npair_loc && !ex_expired(); B++) {
				int norders = (A && B) ? 2 : 1;
				for (int o = 0; o < norders; o++) {
					do_pair(A, B, o, 0);
					++*c_traces;
				}
				if (A && B && A != B) {
					++*c_nontriv;
				}
				if (ex_want_sample()) {
					ex_sample("setilocale(%s), setflocale(%s) in both orders: 8 tables, %d names parsed, %d printed", mloc[A].name, mloc[B].name, 38, 38);
				}
			}
		}
	}
	return ex_finish();
}
