/* c19_specs.c -- C19/C13, MAP:KEY resolution has no memory: a zone spec resolves to the same
 * zone whatever specs were resolved before it in the same process (src/dt-io-zone.c:
 * dt_io_zone, find_tzmap, the alists of opened maps and zones).
 *
 * One source, compiled with -DC19_SPECS_dzone or -DC19_SPECS_dconv.  A TZMAP_DIR with four
 * maps compiled at start-up by the tree's own `lib/tzmap cc', whose names have different
 * lengths and are prefixes/extensions of each other (a, ab, abcdefgh, xyz); each maps the
 * key K to a DIFFERENT zone (so the map actually consulted shows in the result), and FRA.
 * Spec alphabet: MAP:K over the four maps, MAP:absent-key, absent-map:K, a plain zone name,
 * a numeric offset, an absolute file path.
 *   dzone variant:  (L) dt_io_zone() itself in a forked child: ALL ordered pairs (thorough:
 *                       triples) of specs resolved one after the other in ONE process, the
 *                       offset each resolves to at a fixed instant (or "unresolved") printed;
 *                   (M) dzone S1 S2 [S3] DATE over the resolvable specs;
 *   dconv variant:  (M) dconv --from-zone X --zone Y for all ordered pairs, against the
 *                       two-process pipeline through UTC.
 * Oracle (differential): the sequence run == the concatenation of the single-spec runs, each
 * of which is a fresh process. */
#if defined HAVE_CONFIG_H
# include "config.h"
#endif
#if defined C19_SPECS_dzone
# define SP_TOOL "dzone"
# define main sp_tool_main
# include "dzone.c"
# undef main
#elif defined C19_SPECS_dconv
# define SP_TOOL "dconv"
# define main sp_tool_main
# include "dconv.c"
# undef main
#else
# error "compile with -DC19_SPECS_dzone or -DC19_SPECS_dconv"
#endif

#include "impl.h"
#include "explore.h"
#include "forksrv.h"
#include <sys/stat.h>

static const char *const map_names[4] = {"a", "ab", "abcdefgh", "xyz"};
static const char *const map_kzone[4] = {"Asia/Tokyo", "Asia/Kolkata", "Australia/Sydney", "Etc/GMT+5"};

enum { C_MAPKEY, C_ABSENTKEY, C_ABSENTMAP, C_NAME, C_OFFSET, C_PATH };
static const char *const cls_name[] = {"map:key", "map:absent-key", "absent-map:key", "zone-name", "offset", "file-path"};
struct spec_s {
	const char *spec;
	int cls;
	int maplen;	/* length of the map name, 0 if none */
};
static const struct spec_s specs[] = {
	{"a:K", C_MAPKEY, 1},
	{"ab:K", C_MAPKEY, 2},
	{"abcdefgh:K", C_MAPKEY, 8},
	{"xyz:K", C_MAPKEY, 3},
	{"abcdefgh:FRA", C_MAPKEY, 8},
	{"ab:ZZZ", C_ABSENTKEY, 2},
	/* absent keys that spell something zif_open() would accept on its own */
	{"ab:GMT", C_ABSENTKEY, 2},
	{"a:CET", C_ABSENTKEY, 1},
	{"abcdefgh:Japan", C_ABSENTKEY, 8},
	{"xyz:Europe/Paris", C_ABSENTKEY, 3},
	{"ab:UTC", C_ABSENTKEY, 2},
	{"a:TAI", C_ABSENTKEY, 1},
	{"ab:+05:30", C_ABSENTKEY, 2},
	{"xyz:-0800", C_ABSENTKEY, 3},
	{"abcd:K", C_ABSENTMAP, 4},
	{"Europe/Berlin", C_NAME, 0},
	{"+05:30", C_OFFSET, 0},
	{"/usr/share/zoneinfo/America/New_York", C_PATH, 0},
};
#define NSPEC	((int)(sizeof(specs) / sizeof(*specs)))

static char rundir[4200];
static char envdir[4300];
static const char *run_env[3];
#define THE_INSTANT	1341144000LL	/* 2012-07-01T12:00:00Z */
#define THE_DATE	"2012-07-01T12:00:00"

struct out_s {
	char *out;
	size_t len;
	int ended, status;
	int asan;		/* stderr carried an AddressSanitizer report */
};

static void
run_fn(int (*fn)(int, char**), const char *const *argv, int argc, const char *in, size_t inlen, struct out_s *o)
{
	struct fs_opts fo;
	struct fs_result r;
	EX_CTR(c_eval, "evaluations");
	memset(&fo, 0, sizeof(fo));
	if (in) {
		fo.stdin_data = in;
		fo.stdin_len = inlen;
	}
	fo.now = 1330000000LL;
	fo.env = run_env;
	fo.timeout_s = 20;
	fs_run(fn, argc, argv, &fo, &r);
	++*c_eval;
	o->out = r.out;
	o->len = r.outlen;
	o->ended = r.timed_out ? 1 : r.signaled ? 2 : 0;
	o->status = r.signaled ? r.sig : r.status;
	o->asan = r.err != NULL && strstr(r.err, "AddressSanitizer") != NULL;
	free(r.err);
}

/* (L) resolve argv[1..] one after the other in this process */
static int
resolve_main(int argc, char *argv[])
{
	for (int i = 1; i < argc; i++) {
		zif_t z = dt_io_zone(argv[i]);
		if (z == NULL) {
			printf("%s unresolved\n", argv[i]);
		} else {
			printf("%s %lld\n", argv[i], (long long)(zif_local_time(z, THE_INSTANT) - THE_INSTANT));
		}
	}
	dt_io_clear_zones();
	return 0;
}

static const char*
relation(const int *seq, int e)
{
	/* the map spec resolved last before element E */
	for (int i = e - 1; i >= 0; i--) {
		if (specs[seq[i]].maplen) {
			int a = specs[seq[i]].maplen, b = specs[seq[e]].maplen;
			return !b ? "after-a-map-spec" : a > b ? "after-a-longer-map-name" : a < b ? "after-a-shorter-map-name" : "after-an-equally-long-map-name";
		}
	}
	return "after-no-map-spec";
}

static void
printable(const char *s, size_t len, char *buf, size_t bsz)
{
	size_t k = 0;
	for (size_t i = 0; i < len && k + 6 < bsz && k < 400; i++) {
		unsigned char c = (unsigned char)s[i];
		if (c == '\n') {
			buf[k++] = '\\';
			buf[k++] = 'n';
		} else if (c == '\t') {
			buf[k++] = '\\';
			buf[k++] = 't';
		} else if (c < 0x20 || c >= 0x7f) {
			k += (size_t)snprintf(buf + k, bsz - k, "\\x%02x", c);
		} else {
			buf[k++] = (char)c;
		}
	}
	buf[k] = '\0';
}

static int g_replay;

/* compare O with the concatenation of SINGLE[seq[i]]; report under LEVEL */
static int
judge(const char *level, const int *seq, int n, const struct out_s *o, const struct out_s *single, const char *cmd, const char *cas)
{
	char exp[4096], key[256], a[900], b[900];
	size_t elen = 0, pos, acc;
	int el, ord = 0;
	EX_CTR(c_trans, "transitions");
	EX_CTR(c_nontriv, "nontrivial");

	++*c_trans;
	for (int i = 0; i < n; i++) {
		ord = ord * (NSPEC + 1) + seq[i] + 1;
		if (elen + single[seq[i]].len < sizeof(exp)) {
			memcpy(exp + elen, single[seq[i]].out, single[seq[i]].len);
			elen += single[seq[i]].len;
		}
	}
	{
		int maps = 0;
		for (int i = 0; i < n; i++) {
			maps += specs[seq[i]].maplen > 0;
		}
		*c_nontriv += maps >= 2;
	}
	ex_outcome(ex_hash_mix(ex_hash(o->out, o->len), (uint64_t)ord));
	if (o->ended) {
		snprintf(key, sizeof(key), "zonespecs %s %s", level, o->ended == 1 ? "does-not-terminate" : "dies-of-a-signal");
		ex_viol(key, ord, cas, cmd, "the run on the sequence ends abnormally (signal/status %d) although each single-spec run ends normally", o->status);
		return 1;
	}
	if (o->len == elen && !memcmp(o->out, exp, elen)) {
		if (g_replay) {
			printable(o->out, o->len, a, sizeof(a));
			printf("  ok %s\n  prints '%s' as the single-spec runs do\n", cmd, a);
		}
		return 0;
	}
	for (pos = 0; pos < o->len && pos < elen && o->out[pos] == exp[pos]; pos++) {
		;
	}
	for (el = 0, acc = 0; el < n - 1 && pos >= acc + single[seq[el]].len; el++) {
		acc += single[seq[el]].len;
	}
	snprintf(key, sizeof(key), "zonespecs %s output-differs spec=%s %s", level, cls_name[specs[seq[el]].cls], relation(seq, el));
	printable(o->out, o->len, a, sizeof(a));
	printable(exp, elen, b, sizeof(b));
	ex_viol(key, ord, cas, cmd, "spec '%s' (number %d of the run): the run prints '%s'; the single-spec runs print '%s'", specs[seq[el]].spec, el + 1, a, b);
	if (g_replay) {
		printf("  FAIL [%s] %s\n  run:     '%s'\n  singles: '%s'\n", key, cmd, a, b);
	}
	return 1;
}

#if defined C19_SPECS_dzone
static struct out_s lsingle[NSPEC], zsingle[NSPEC];

static int
resolvable(int i)
{
	return specs[i].cls != C_ABSENTKEY && specs[i].cls != C_ABSENTMAP;
}

static void
singles(void)
{
	for (int i = 0; i < NSPEC; i++) {
		const char *av[4] = {"resolve", specs[i].spec, NULL, NULL};
		free(lsingle[i].out);
		run_fn(resolve_main, av, 2, NULL, 0, lsingle + i);
		if (resolvable(i)) {
			const char *zv[4] = {SP_TOOL, specs[i].spec, THE_DATE, NULL};
			free(zsingle[i].out);
			run_fn(sp_tool_main, zv, 3, NULL, 0, zsingle + i);
		}
	}
}

/* absolute part of the oracle: a spec whose key or map is absent is unresolved, whatever the key spells */
static void
judge_absent(void)
{
	for (int i = 0; i < NSPEC; i++) {
		char exp[128], key[200], cas[32], a[200];
		EX_CTR(c_trans, "transitions");
		if (resolvable(i)) {
			continue;
		}
		++*c_trans;
		snprintf(exp, sizeof(exp), "%s unresolved\n", specs[i].spec);
		if (lsingle[i].ended || lsingle[i].asan || strcmp(lsingle[i].out, exp)) {
			const char *k = strchr(specs[i].spec, ':') + 1;
			snprintf(key, sizeof(key), "zonespecs dt_io_zone %s-resolves key-spells=%s", specs[i].cls == C_ABSENTKEY ? "absent-key" : "absent-map",
				 *k == '+' || *k == '-' ? "offset" : !strcmp(k, "UTC") || !strcmp(k, "TAI") || !strcmp(k, "GPS") ? "virtual-zone" : !strcmp(k, "ZZZ") || !strcmp(k, "K") ? "nothing" : "zone-name");
			snprintf(cas, sizeof(cas), "A %d", i);
			printable(lsingle[i].out, lsingle[i].len, a, sizeof(a));
			ex_viol(key, i, cas, NULL, "dt_io_zone('%s') alone in a fresh process gives '%s'; the key is not in the map, so the spec names no zone", specs[i].spec, a);
			if (g_replay) {
				printf("  FAIL [%s] %s -> '%s'\n", key, specs[i].spec, a);
			}
		} else if (g_replay) {
			printf("  ok %s is unresolved\n", specs[i].spec);
		}
	}
}

/* a short spec and a zone path of exactly L bytes cached in one process, in both orders (the list of opened zones grows) */
#define LONG_MIN	60
#define LONG_MAX	300
static int
judge_long(int L, int order)
{
	static const char zdir[] = "/usr/share/zoneinfo", zname[] = "/Europe/Berlin";
	char path[512], exp[1200], key[200], cas[32], a[300];
	const char *av[4];
	struct out_s o;
	size_t n;
	int bad = 0;
	EX_CTR(c_trans, "transitions");
	EX_CTR(c_long, "long_zone_name_runs");
	EX_CTR(c_nontriv, "nontrivial");

	n = (size_t)snprintf(path, sizeof(path), "%s", zdir);
	while (n + 2 + sizeof(zname) - 1 <= (size_t)L) {
		path[n++] = '/';
		path[n++] = '.';
	}
	if (n + sizeof(zname) - 1 < (size_t)L) {
		path[n++] = '/';
	}
	snprintf(path + n, sizeof(path) - n, "%s", zname);
	av[0] = "resolve";
	av[1] = order ? path : "Europe/Paris";
	av[2] = order ? "Europe/Paris" : path;
	run_fn(resolve_main, av, 3, NULL, 0, &o);
	++*c_trans;
	++*c_long;
	++*c_nontriv;
	snprintf(exp, sizeof(exp), "%s 7200\n%s 7200\n", av[1], av[2]);
	snprintf(cas, sizeof(cas), "G %d %d", L, order);
	ex_outcome(ex_hash_mix(ex_hash(o.out, o.len), (uint64_t)L));
	if (o.ended || o.asan || strcmp(o.out, exp)) {
		snprintf(key, sizeof(key), "zonespecs dt_io_zone long-zone-name %s order=%s", o.asan ? "asan-report" : o.ended ? "abnormal-end" : "wrong-output",
			 order ? "long-then-short" : "short-then-long");
		printable(o.out, o.len > 60 ? 60 : o.len, a, sizeof(a));
		ex_viol(key, L, cas, NULL, "dt_io_zone() on %s in one process (path of %d bytes): %s%s, output starts '%s'", order ? "<path> Europe/Paris" : "Europe/Paris <path>", L,
			o.asan ? "AddressSanitizer reports, " : "", o.ended ? "abnormal end" : "exit", a);
		bad = 1;
	}
	if (g_replay) {
		printf("  %s path of %d bytes, %s\n", bad ? "FAIL" : "ok", L, order ? "long then short" : "short then long");
	}
	free(o.out);
	return bad;
}

static int
do_seq(const int *seq, int n)
{
	const char *av[8];
	char cmd[512], cas[64];
	struct out_s o;
	int argc = 0, bad = 0, allres = 1;
	size_t k;

	/* (L) */
	av[argc++] = "resolve";
	for (int i = 0; i < n; i++) {
		av[argc++] = specs[seq[i]].spec;
		allres &= resolvable(seq[i]);
	}
	run_fn(resolve_main, av, argc, NULL, 0, &o);
	k = (size_t)snprintf(cmd, sizeof(cmd), "dt_io_zone() on");
	for (int i = 0; i < n; i++) {
		k += (size_t)snprintf(cmd + k, sizeof(cmd) - k, " %s", specs[seq[i]].spec);
	}
	snprintf(cas, sizeof(cas), "L %d %d %d %d", n, seq[0], seq[1], n > 2 ? seq[2] : -1);
	bad |= judge("dt_io_zone", seq, n, &o, lsingle, cmd, cas);
	free(o.out);
	/* (M) dzone: specs that do not resolve are taken for nothing and change what the tool falls back to; resolvable ones only */
	if (allres) {
		argc = 0;
		av[argc++] = SP_TOOL;
		for (int i = 0; i < n; i++) {
			av[argc++] = specs[seq[i]].spec;
		}
		av[argc++] = THE_DATE;
		run_fn(sp_tool_main, av, argc, NULL, 0, &o);
		k = (size_t)snprintf(cmd, sizeof(cmd), "TZMAP_DIR=<maps> dzone");
		for (int i = 0; i < n; i++) {
			k += (size_t)snprintf(cmd + k, sizeof(cmd) - k, " %s", specs[seq[i]].spec);
		}
		snprintf(cmd + k, sizeof(cmd) - k, " %s", THE_DATE);
		snprintf(cas, sizeof(cas), "Z %d %d %d %d", n, seq[0], seq[1], n > 2 ? seq[2] : -1);
		bad |= judge("dzone", seq, n, &o, zsingle, cmd, cas);
		free(o.out);
	}
	return bad;
}
#else
/* dconv --from-zone X --zone Y == (dconv --from-zone X) | (dconv --zone Y), each in its own process */
static int
do_pair(int x, int y)
{
	const char *av[8];
	char cmd[512], cas[64], key[256], a[300], b[300];
	struct out_s o, u, e;
	static const char in[] = THE_DATE "\n2012-01-01T00:30:00\n";
	int bad;
	EX_CTR(c_trans, "transitions");
	EX_CTR(c_nontriv, "nontrivial");

	av[0] = SP_TOOL;
	av[1] = "--from-zone";
	av[2] = specs[x].spec;
	av[3] = "--zone";
	av[4] = specs[y].spec;
	run_fn(sp_tool_main, av, 5, in, sizeof(in) - 1, &o);
	av[3] = NULL;
	run_fn(sp_tool_main, av, 3, in, sizeof(in) - 1, &u);
	av[1] = "--zone";
	av[2] = specs[y].spec;
	if (u.len) {
		run_fn(sp_tool_main, av, 3, u.out, u.len, &e);
	} else {
		memset(&e, 0, sizeof(e));
		e.out = strdup("");
	}
	++*c_trans;
	*c_nontriv += specs[x].maplen && specs[y].maplen;
	snprintf(cas, sizeof(cas), "P %d %d", x, y);
	snprintf(cmd, sizeof(cmd), "printf '%s\\n' | TZMAP_DIR=<maps> dconv --from-zone %s --zone %s", THE_DATE, specs[x].spec, specs[y].spec);
	ex_outcome(ex_hash_mix(ex_hash(o.out, o.len), (uint64_t)(x * 16 + y)));
	bad = o.ended || o.len != e.len || memcmp(o.out, e.out, e.len);
	if (bad) {
		int seq[2] = {x, y};
		snprintf(key, sizeof(key), "zonespecs dconv--from-zone--zone output-differs spec=%s %s", cls_name[specs[y].cls], relation(seq, 1));
		printable(o.out, o.len, a, sizeof(a));
		printable(e.out, e.len, b, sizeof(b));
		ex_viol(key, x * (NSPEC + 1) + y, cas, cmd, "prints '%s'; the two single-zone runs piped through UTC print '%s'", a, b);
	}
	if (g_replay) {
		printable(o.out, o.len, a, sizeof(a));
		printf("  %s %s -> '%s'\n", bad ? "FAIL" : "ok", cmd, a);
	}
	free(o.out);
	free(u.out);
	free(e.out);
	return bad;
}
#endif

int
main(int argc, char *argv[])
{
	EX_CTR(c_states, "states");
	EX_CTR(c_traces, "traces");
	const char *rd = getenv("VERIF_RUNDIR");
	char cmd[8192];

	ex_init(argc, argv);
	if (ex.tree == NULL) {
		fprintf(stderr, "c19_specs: no --tree\n");
		return 3;
	}
	snprintf(rundir, sizeof(rundir), "%s/c19sp.%07d", rd ? rd : "/tmp", (int)getpid() % 10000000);
	mkdir(rundir, 0700);
	for (int i = 0; i < 4; i++) {
		snprintf(cmd, sizeof(cmd), "printf 'FRA\\tEurope/Berlin\\nK\\t%s\\n' > '%s/src' && '%s/lib/tzmap' cc -o '%s/%s.tzmcc' '%s/src' 2>/dev/null",
			 map_kzone[i], rundir, ex.tree, rundir, map_names[i], rundir);
		if (system(cmd) != 0) {
			fprintf(stderr, "c19_specs: cannot compile the maps with %s/lib/tzmap\n", ex.tree);
			return 3;
		}
	}
	snprintf(envdir, sizeof(envdir), "TZMAP_DIR=%s", rundir);
	run_env[0] = "LC_ALL=C";
	run_env[1] = envdir;
	run_env[2] = NULL;

	if (ex.cas) {
		int bad = 1;
		g_replay = 1;
#if defined C19_SPECS_dzone
		{
			char lv;
			int n, seq[3];
			int L, ord;
			if (sscanf(ex.cas, "G %d %d", &L, &ord) == 2 && L >= 40 && L <= 400) {
				bad = judge_long(L, ord);
			} else if (ex.cas[0] == 'A') {
				int n0 = ex.nviol;
				singles();
				judge_absent();
				bad = ex.nviol > n0;
			} else if (sscanf(ex.cas, "%c %d %d %d %d", &lv, &n, seq, seq + 1, seq + 2) == 5 && n >= 2 && n <= 3 && seq[0] >= 0 && seq[0] < NSPEC && seq[1] >= 0 &&
			    seq[1] < NSPEC && seq[2] < NSPEC) {
				singles();
				bad = do_seq(seq, n);
			}
		}
#else
		{
			int x, y;
			if (sscanf(ex.cas, "P %d %d", &x, &y) == 2 && x >= 0 && x < NSPEC && y >= 0 && y < NSPEC) {
				bad = do_pair(x, y);
			}
		}
#endif
		snprintf(cmd, sizeof(cmd), "rm -rf '%s'", rundir);
		if (system(cmd)) {
			;
		}
		return ex_replay_result(bad, "%s", ex.cas);
	}

	ex_meta("rule", "zone specs have no memory: TZMAP_DIR with the maps a, ab, abcdefgh, xyz (compiled by the tree's tzmap cc; key K goes to a different zone in each) and a "
		"%d-spec alphabet (MAP:K over the four maps, MAP:FRA, MAP:absent-key, absent-map:K, a zone name, an offset, a file path). "
#if defined C19_SPECS_dzone
		"Absent keys include ones spelt like zone names, virtual zones and offsets (GMT CET Japan Europe/Paris UTC TAI +05:30 -0800): alone they must be unresolved. "
		"A short zone name and a zone path of EVERY length 60..300 bytes are resolved in one process in both orders (the list of opened zones grows): no AddressSanitizer report, "
		"both resolve. (L) dt_io_zone() in a forked child on ALL ordered pairs (thorough: triples) of specs in one process: the offset each resolves to (or unresolved) = the single-spec "
		"run in a fresh process; (M) dzone S1 S2 [S3] DATE over the resolvable specs = the single-spec runs (a spec that does not resolve changes what dzone falls back to and is "
		"left to (L)). "
#else
		"dconv --from-zone X --zone Y for all ordered pairs = (dconv --from-zone X) | (dconv --zone Y), each in its own process. "
#endif
		"non-trivial = sequences with at least two MAP: specs", NSPEC);
	ex_meta("bound", "%s: all ordered %s", ex.thorough ? "thorough" : "quick",
#if defined C19_SPECS_dzone
		ex.thorough ? "pairs and triples" : "pairs"
#else
		"pairs (both tiers)"
#endif
		);

#if defined C19_SPECS_dzone
	if (ex.worker == 0) {
		singles();
		judge_absent();
	}
	for (int L = LONG_MIN; L <= LONG_MAX && !ex_expired(); L++) {
		if (ex_mine((uint64_t)(100000 + L))) {
			judge_long(L, 0);
			judge_long(L, 1);
		}
	}
	{
		int have = 0;
		for (int a = 0; a < NSPEC && !ex_expired(); a++) {
			for (int b = 0; b < NSPEC; b++) {
				int seq[3] = {a, b, 0};
				if (!ex_mine((uint64_t)(a * NSPEC + b))) {
					continue;
				}
				if (!have) {
					singles();
					have = 1;
				}
				do_seq(seq, 2);
				++*c_traces;
				if (ex.thorough) {
					for (int c = 0; c < NSPEC; c++) {
						seq[2] = c;
						do_seq(seq, 3);
						++*c_traces;
					}
				}
				++*c_states;
				if (ex_want_sample()) {
					ex_sample("dt_io_zone and dzone on the specs %s %s%s", specs[a].spec, specs[b].spec, ex.thorough ? " <every third spec>" : "");
				}
			}
		}
	}
#else
	for (int x = 0; x < NSPEC && !ex_expired(); x++) {
		for (int y = 0; y < NSPEC; y++) {
			if (!ex_mine((uint64_t)(x * NSPEC + y))) {
				continue;
			}
			do_pair(x, y);
			++*c_states;
			++*c_traces;
			if (ex_want_sample()) {
				ex_sample("dconv --from-zone %s --zone %s vs the pipeline through UTC", specs[x].spec, specs[y].spec);
			}
		}
	}
#endif
	snprintf(cmd, sizeof(cmd), "rm -rf '%s'", rundir);
	if (system(cmd)) {
		;
	}
	return ex_finish();
}
