/* c03_common.h -- shared by the C03 / C04 / C07 explorers (date arithmetic).
 *
 * Calendars as the tools take them: a day of the reference machine is written
 * in a calendar's default text, handed to the public parser exactly as
 * dadd/dconv do (dt_strpdt with the -i format or none), durations are parsed
 * by dt_io_strpdtdur() from the text a user would type ("+5d", "-3mo", "2b"),
 * applied with dt_dtadd() one after the other (dadd.c:dadd_add) and the result
 * is observed through dt_strfdt() (what dt_io_write prints) and through
 * dt_dconv(DT_DAISY). */
#ifndef VERIF_C03_COMMON_H
#define VERIF_C03_COMMON_H
#include "impl.h"
#include "refcal.h"
#include "dt-io.h"

/* libdutio's error() wants it (a tool source included into the explorer brings its own) */
#if !defined C03_NO_PROG
const char *prog = "verif";
#endif

/* epoch  = the day's midnight as "@SECONDS" (format-less parser; the same value must come out of -i %s SECONDS)
 * ymcw-w0 = ymcw with Sunday written 00, the documented %w spelling (Sundays only)
 * ywd-w0  = ISO week date read with -i %G-W%V-%w, Sunday written 00 (Sundays only) */
/* bizda-B = business days counted BEFORE ultimo, the documented %dB / YYYY-MM-DDB spelling: DD = number of Monday-Friday
 *           days of the month after the day (Monday-Friday days except the month's last one, whose count 00 is left out) */
enum { C_YMD, C_YWD, C_YD, C_YMCW, C_DAISY, C_LDN, C_JDN, C_MDN, C_BIZDA, C_EPOCH, C_YMCW0, C_YWD0, C_BIZDAB, NCAL };
static const char *const cal_name[NCAL] = {"ymd", "ywd", "yd", "ymcw", "daisy", "ldn", "jdn", "mdn", "bizda", "epoch", "ymcw-w0", "ywd-w0", "bizda-B"};
/* input format handed to the parser (NULL: the format-less standard parser) */
static const char *const cal_ifmt[NCAL] = {NULL, NULL, NULL, NULL, NULL, "ldn", "jdn", "mdn", NULL, NULL, NULL, "%G-W%V-%w", NULL};
static const dt_dtyp_t cal_typ[NCAL] = {DT_YMD, DT_YWD, DT_YD, DT_YMCW, DT_DAISY, DT_LDN, DT_JDN, DT_MDN, DT_BIZDA, DT_DUNK, DT_YMCW, DT_YWD, DT_BIZDA};
/* the calendar whose names the default output of a value held in C uses */
static const int cal_base[NCAL] = {C_YMD, C_YWD, C_YD, C_YMCW, C_DAISY, C_LDN, C_JDN, C_MDN, C_BIZDA, C_EPOCH, C_YMCW, C_YWD, C_BIZDA};

/* Monday-Friday days of P's month after P */
static int
bd_until_ultimo(const struct rc_day *p)
{
	int n = 0;
	for (int k = p->rd + 1; k < RC_NDAYS && rc_tab[k].m == p->m; k++) {
		n += rc_tab[k].isbd;
	}
	return n;
}

/* the day's name in calendar C; 0 if it has none (weekend in bizda).
 * daisy has no text: the ymd text is parsed and converted (dseq does that) */
static int
cal_text(int c, const struct rc_day *p, char *buf, size_t bsz)
{
	switch (c) {
	case C_DAISY:
	case C_YMD: snprintf(buf, bsz, "%04d-%02d-%02d", p->y, p->m, p->d); break;
	case C_YWD: snprintf(buf, bsz, "%04d-W%02d-%d", p->isoy, p->isow, p->wd); break;
	case C_YD: snprintf(buf, bsz, "%04d-%03d", p->y, p->yday); break;
	case C_YMCW: snprintf(buf, bsz, "%04d-%02d-%02d-%02d", p->y, p->m, p->mcnt, p->wd); break;
	case C_LDN: snprintf(buf, bsz, "%lld", (long long)rc_ldn(p->rd)); break;
	case C_JDN: snprintf(buf, bsz, "%.1f", rc_jdn(p->rd)); break;
	case C_MDN: snprintf(buf, bsz, "%lld", (long long)rc_mdn(p->rd)); break;
	case C_BIZDA:
		if (!p->isbd) {
			*buf = '\0';
			return 0;
		}
		snprintf(buf, bsz, "%04d-%02d-%02db", p->y, p->m, p->bd);
		break;
	case C_EPOCH: snprintf(buf, bsz, "@%lld", (long long)p->unixd * 86400LL); break;
	case C_BIZDAB: {
		int b;
		if (!p->isbd || (b = bd_until_ultimo(p)) == 0) {
			*buf = '\0';
			return 0;
		}
		snprintf(buf, bsz, "%04d-%02d-%02dB", p->y, p->m, b);
		break;
	}
	case C_YMCW0:
		if (p->wd != 7) {
			*buf = '\0';
			return 0;
		}
		snprintf(buf, bsz, "%04d-%02d-%02d-00", p->y, p->m, p->mcnt);
		break;
	case C_YWD0:
		if (p->wd != 7) {
			*buf = '\0';
			return 0;
		}
		snprintf(buf, bsz, "%04d-W%02d-00", p->isoy, p->isow);
		break;
	}
	return 1;
}

/* value of day P held in calendar C as a tool holds it: 1 ok, 0 no name, -1 parser refuses */
static int
cal_value(int c, const struct rc_day *p, struct dt_dt_s *out)
{
	char text[48];
	struct dt_dt_s v;

	if (!cal_text(c, p, text, sizeof(text))) {
		return 0;
	}
	v = dt_strpdt(text, cal_ifmt[c], NULL);
	if (dt_unk_p(v)) {
		return -1;
	}
	if (c == C_DAISY) {
		v = dt_dtconv((dt_dttyp_t)DT_DAISY, v);
	}
	if (c == C_EPOCH) {
		/* the other documented spelling, -i %s SECONDS, must give the very same value */
		struct dt_dt_s w = dt_strpdt(text + 1, "%s", NULL);
		if (v.typ != DT_SEXY || memcmp(&v, &w, sizeof(v))) {
			return -1;
		}
	} else if (v.d.typ != cal_typ[c]) {
		return -1;
	}
	*out = v;
	return 1;
}

/* day count of a result as the library converts it */
static inline unsigned int
obs_daisy(struct dt_dt_s r)
{
	if (r.typ == DT_SEXY) {
		return dt_dtconv((dt_dttyp_t)DT_DAISY, r).d.daisy;
	}
	return dt_dconv(DT_DAISY, r.d).daisy;
}

/* durations: parsed from the text a user types, through the tools' own front
 * end dt_io_strpdtdur() (sign handling, chained components "1mo2d") */
#define MAXDURS	8
struct durs_s {
	struct dt_dtdur_s d[MAXDURS];
	int n;
};

static int
mk_durs(struct durs_s *out, const char *str)
{
	struct __strpdtdur_st_s st = {0};
	int rc = 0;

	out->n = 0;
	do {
		if (dt_io_strpdtdur(&st, str) < 0) {
			rc = -1;
			break;
		}
	} while (__strpdtdur_more_p(&st));
	if (rc == 0 && st.ndurs <= MAXDURS) {
		for (size_t i = 0; i < st.ndurs; i++) {
			out->d[i] = st.durs[i];
		}
		out->n = (int)st.ndurs;
	} else {
		rc = -1;
	}
	__strpdtdur_free(&st);
	return rc;
}

/* dadd.c:dadd_add */
static inline struct dt_dt_s
apply_durs(struct dt_dt_s v, const struct durs_s *ds)
{
	for (int i = 0; i < ds->n; i++) {
		v = dt_dtadd(v, ds->d[i]);
	}
	return v;
}

/* split TEXT into unsigned integer fields; skeleton of the rest goes to SK */
static int
scan_ints(const char *s, long long v[], int maxv, char *sk, size_t sksz)
{
	int n = 0;
	size_t k = 0;
	while (*s) {
		if (*s >= '0' && *s <= '9') {
			long long x = 0;
			while (*s >= '0' && *s <= '9') {
				x = x * 10 + (*s++ - '0');
			}
			if (n < maxv) {
				v[n] = x;
			}
			n++;
		} else {
			if (k + 1 < sksz) {
				sk[k++] = *s;
			}
			s++;
		}
	}
	sk[k] = '\0';
	return n;
}

/* expected default text of day P in calendar C (as cal_text, daisy prints as ymd) */
static void
exp_dflt(int c, const struct rc_day *p, char *buf, size_t bsz)
{
	c = cal_base[c];
	if (c == C_JDN) {
		snprintf(buf, bsz, "%.6f", rc_jdn(p->rd));
	} else if (c == C_EPOCH) {
		snprintf(buf, bsz, "%04d-%02d-%02dT00:00:00", p->y, p->m, p->d);
	} else if (!cal_text(c, p, buf, bsz)) {
		snprintf(buf, bsz, "(%04d-%02d-%02d is a weekend day: no bizda name)", p->y, p->m, p->d);
	}
}

/* does GOT (default output of a value held in calendar C) name day P?
 * parsed values are compared: padding is free, Sunday may be 0 or 7 */
static int
dflt_agrees(int c, const struct rc_day *p, const char *got)
{
	long long v[6];
	char sk[16];
	int n = scan_ints(got, v, 6, sk, sizeof(sk));

	switch (cal_base[c]) {
	case C_EPOCH:
		/* an epoch prints as date and time of day: the day's midnight */
		return n == 6 && !strcmp(sk, "--T::") && v[0] == p->y && v[1] == p->m && v[2] == p->d && !v[3] && !v[4] && !v[5];
	case C_YMD:
	case C_DAISY:
		return n == 3 && !strcmp(sk, "--") && v[0] == p->y && v[1] == p->m && v[2] == p->d;
	case C_YWD:
		return n == 3 && !strcmp(sk, "-W-") && v[0] == p->isoy && v[1] == p->isow && v[2] == p->wd;
	case C_YD:
		return n == 2 && !strcmp(sk, "-") && v[0] == p->y && v[1] == p->yday;
	case C_YMCW:
		return n == 4 && !strcmp(sk, "---") && v[0] == p->y && v[1] == p->m && v[2] == p->mcnt &&
			(v[3] == p->wd || (p->wd == 7 && v[3] == 0));
	case C_LDN:
		return n == 1 && sk[0] == '\0' && v[0] == rc_ldn(p->rd);
	case C_MDN:
		return n == 1 && sk[0] == '\0' && v[0] == rc_mdn(p->rd);
	case C_JDN: {
		char *ep;
		double g;
		if (*got == '\0') {
			return 0;
		}
		g = strtod(got, &ep);
		return *ep == '\0' && g == rc_jdn(p->rd);
	}
	case C_BIZDA:
		/* a business day may be named by its count after the previous ultimo (b) or before this month's (B) */
		if (p->isbd && n == 3 && !strcmp(sk, "--B") && v[0] == p->y && v[1] == p->m) {
			return v[2] == bd_until_ultimo(p);
		}
		return p->isbd && n == 3 && !strcmp(sk, "--b") && v[0] == p->y && v[1] == p->m && v[2] == p->bd;
	}
	return 0;
}

/* does GOT (printed with %F) name day P? */
static int
ymd_agrees(const struct rc_day *p, const char *got)
{
	long long v[4];
	char sk[8];
	int n = scan_ints(got, v, 4, sk, sizeof(sk));
	return n == 3 && !strcmp(sk, "--") && v[0] == p->y && v[1] == p->m && v[2] == p->d;
}

/* literal command line with the stock tools; returns NULL when the case is not
 * reachable through dadd (a day-count-held value: dadd holds what it parsed,
 * only dseq steps with day counts) */
static const char*
dadd_cmd(char *cmd, size_t csz, int c, const char *text, const char *durs, const char *ofmt)
{
	char o[64] = "";
	if (ofmt) {
		snprintf(o, sizeof(o), " -f '%s'", ofmt);
	}
	if (c == C_DAISY) {
		return NULL;
	} else if (cal_ifmt[c]) {
		snprintf(cmd, csz, "dadd -i '%s'%s %s -- %s", cal_ifmt[c], o, text, durs);
	} else {
		snprintf(cmd, csz, "dadd%s %s -- %s", o, text, durs);
	}
	return cmd;
}

#if defined VERIF_EXPLORE_H
/* ex_expired() looks at the clock every 4096th call only; loops with few, long
 * iterations (year slices, binding runs) ask the clock directly */
static inline int
ex_expired_now(void)
{
	if (!ex.expired && ex.deadline > 0 && ex_now() > ex.deadline) {
		ex.expired = 1;
	}
	return ex.expired;
}

/* fast path for classes with millions of failing cases: when the class exists
 * already and ORD is no new minimum only count and widen the range (exactly
 * what ex_viol() would do), so that the caller need not format the example */
static int
ex_viol_known(const char *key, double ord)
{
	static int last;
	struct ex_viol_s *v = NULL;

	if (last < ex.nviol && !strcmp(ex.viol[last].key, key)) {
		v = ex.viol + last;
	} else {
		for (int i = 0; i < ex.nviol; i++) {
			if (!strcmp(ex.viol[i].key, key)) {
				v = ex.viol + i;
				last = i;
				break;
			}
		}
	}
	if (v == NULL || v->cas == NULL || ord < v->ord) {
		return 0;
	}
	v->n++;
	if (ord > v->hi) {
		v->hi = ord;
	}
	return 1;
}
#endif	/* VERIF_EXPLORE_H */

/* input lines for the binding runs: as cal_text, but an epoch goes in as plain
 * seconds with -i %s (the stdin needle does not look for @N, and takes an
 * unsigned run of digits: days from 1970-01-02 on) */
static int
bind_text(int c, const struct rc_day *p, char *buf, size_t bsz)
{
	if (c == C_EPOCH) {
		if (p->unixd < 1) {
			*buf = '\0';
			return 0;
		}
		snprintf(buf, bsz, "%lld", (long long)p->unixd * 86400LL);
		return 1;
	}
	return cal_text(c, p, buf, bsz);
}

static inline const char*
bind_ifmt(int c)
{
	return c == C_EPOCH ? "%s" : cal_ifmt[c];
}

#if defined VERIF_EXPLORE_H
/* documented spellings of the duration units (dadd --help: "nY, nMO, nW, or nD
 * ... can be written lower-case as well (y, mo, w, d ...) and the unit symbol
 * d can be omitted"): each must parse to the very duration its canonical
 * lower-case spelling parses to, then everything explored for the canonical
 * spelling holds for it */
struct spell_s {
	const char *variant;
	const char *canon;
};

static void
check_spellings(const struct spell_s *sp, int nsp)
{
	EX_CTR(c_sp, "duration spellings compared with their canonical form");
	for (int i = 0; i < nsp; i++) {
		struct durs_s a, b;
		int ra = mk_durs(&a, sp[i].variant), rb = mk_durs(&b, sp[i].canon);
		char key[96], cas[64], cmd[128];

		++*c_sp;
		if (rb < 0) {
			fprintf(stderr, "BROKEN-CHECK: canonical duration text '%s' not accepted\n", sp[i].canon);
			exit(3);
		}
		if (ra == 0 && a.n == b.n && !memcmp(a.d, b.d, sizeof(a.d[0]) * (size_t)a.n)) {
			continue;
		}
		snprintf(key, sizeof(key), "durtext spelling=%s", sp[i].variant + strspn(sp[i].variant, "+-0123456789"));
		snprintf(cas, sizeof(cas), "spell %d", i);
		snprintf(cmd, sizeof(cmd), "dadd 2012-01-31 -- %s", sp[i].variant);
		ex_viol(key, i, cas, cmd, "documented duration spelling '%s' %s (canonical spelling '%s' is accepted)", sp[i].variant,
			ra < 0 ? "is rejected by the duration parser" : "parses to another duration", sp[i].canon);
	}
}
#endif	/* VERIF_EXPLORE_H */

/* W8 of DESIGN.md: four 8-year windows at the rule seams */
static int
in_w8(int y)
{
	return (y >= 1601 && y <= 1608) || (y >= 1897 && y <= 1904) || (y >= 1997 && y <= 2004) || (y >= 4088 && y <= 4095);
}

#endif	/* VERIF_C03_COMMON_H */
