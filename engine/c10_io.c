/* c10_io.c -- C10, dt-io level (static tool logic shared by all tools, src/dt-io.c):
 * needle construction and needle search over a line, the escape decoder of -f arguments,
 * the catch-phrase front of the input parser and the duration string parser with its state.
 *
 * Enumerated to exhaustion per tier length bound L:
 *  mode G  every format string of length <= L over Sf (+ calendar names): calc_grep_atom(F),
 *          build_needle({F}) into an atom array of exactly the tools' size (16 atoms), then
 *          dt_io_find_strpdt2() over lines built from the text the formatter prints for F
 *          (bare, embedded, every truncation) and a fixed list;
 *  mode L  every line of length <= L over Si x format sets (none = the standard needles,
 *          single formats of every needle class, a three-format set): dt_io_find_strpdt2,
 *          and dt_io_strpdt (catch phrases first);
 *  mode U  every string of length <= L over {\ a n t v x e z A % 0x01 0x7f}: dt_io_unescape in place;
 *  mode R  every string of length <= L over {1 0 - + = < / d m o s SPC}: the tools' loop
 *          around dt_io_strpdtdur (state carried in __strpdtdur_st_s) until it says "no more".
 * Oracles: c10_common.h (ASan with exact-size placement, signals, watchdog) plus: match
 * pointers inside the line; the answer does not depend on the bytes behind the line's
 * terminator; unescape never lengthens and terminates inside the block; the duration loop ends. */
#include "impl.h"
#include "explore.h"
#include "dt-io.h"
#include "c10_tok.h"

const char *prog = "c10_io";

static const char SU[] = "\\antvxezA%\x01\x7f";
static const char SR[] = "10-+=</dmos ";

static const char *const named_fmt[] = {
	"ymd", "ymcw", "ywd", "yd", "bizda", "daisy", "sexy", "bizsi", "jdn", "julian", "ldn", "lilian",
	"mdn", "matlab", "hijri", "ummulqura", "hms", "x",
};
#define NNAMED	((uint64_t)(sizeof(named_fmt) / sizeof(*named_fmt)))

static const char FILL_A[] = " 2012-03-04T12:34:56+01:00 Mar Sun 4th 1330864496 12:34";
static const char FILL_B[] = "\x7f\x7e\x7d\x7f\x7e\x7d\x7f\x7e\x7d\x7f\x7e\x7d\x7f\x7e\x7d\x7f\x7e\x7d\x7f\x7e\x7d\x7f\x7e\x7d\x7f\x7e\x7d\x7f\x7e\x7d\x7f\x7e\x7d\x7f\x7e\x7d\x7f\x7e\x7d\x7f\x7e\x7d\x7f\x7e\x7d\x7f\x7e\x7d\x7f\x7e\x7d\x7f\x7e\x7d\x7f\x7e";

static int replay_verbose, replay_fails;
static struct dt_dt_s val;

static void
report(const char *key, double ord, const char *cas, const char *cmd, const char *fmt, ...)
{
	char detail[1024];
	va_list ap;
	va_start(ap, fmt);
	vsnprintf(detail, sizeof(detail), fmt, ap);
	va_end(ap);
	xv_viol(key, ord, cas, cmd, detail);
	if (replay_verbose) {
		printf("  VIOLATION [%s] %s\n", key, detail);
		replay_fails++;
	}
}

static const char*
sig_where(char *buf, size_t bsz)
{
	char site[48], tok[32];
	xt_label_last(tok, sizeof(tok));
	if (xr_sig == SIGABRT) {
		snprintf(buf, bsz, "%s", xg_signame(xr_sig));
	} else if (xr_sig == SIGALRM) {
		snprintf(buf, bsz, "%s, last specifier %s", xg_signame(xr_sig), tok);
	} else {
		snprintf(buf, bsz, "%s in %s, last specifier %s", xg_signame(xr_sig), xs_name(xr_sig_pc, site, sizeof(site)), tok);
	}
	return buf;
}

/* ---- needle search ---- */
#define NATOMS	16
struct fres {
	unsigned char raw[16];
	long sp, ep;
	int unk;
};

/* formats of one case live in the aux slot: the atom array, exact size */
static struct grep_atom_soa_s
make_needles(char *const *fmts, size_t nfmt, int *rc)
{
	struct grep_atom_soa_s soa = {0};
	void *atoms;

	xa_open(&xa_aux, NATOMS * sizeof(struct grep_atom_s));
	memset(xa_aux.p, 0, NATOMS * sizeof(struct grep_atom_s));
	atoms = xa_aux.p;
	XG_BEGIN(*rc) {
		soa = build_needle(atoms, NATOMS, fmts, nfmt);
	} XG_END;
	return soa;
}

static int
do_find(const char *line, size_t llen, const struct grep_atom_soa_s *soa, struct fres *r)
{
	char *sp = NULL, *ep = NULL;
	int rc;

	memset(r, 0, sizeof(*r));
	XG_BEGIN(rc) {
		struct dt_dt_s v = dt_io_find_strpdt2(line, llen, soa, &sp, &ep, NULL);
		memcpy(r->raw, &v, 16);
		r->unk = dt_unk_p(v);
		r->sp = sp ? (long)(sp - line) : -1;
		r->ep = ep ? (long)(ep - line) : -1;
	} XG_END;
	return rc;
}

static void
fmtset_name(char *const *fmts, size_t nfmt, char *buf, size_t bsz)
{
	size_t k = 0;
	buf[0] = '\0';
	if (nfmt == 0) {
		snprintf(buf, bsz, "(none)");
		return;
	}
	for (size_t i = 0; i < nfmt && k + 40 < bsz; i++) {
		char e[64];
		k += (size_t)snprintf(buf + k, bsz - k, "%s\"%s\"", i ? "," : "", xe_esc(fmts[i], strlen(fmts[i]), e, sizeof(e)));
	}
}

/* one search case.  FMTS are already placed (exact-size) by the caller; FSNAME names them in keys when
 * they are a fixed set (mode L), else NULL and the specifier in flight names the class (mode G) */
static int
find_case(char *const *fmts, char *const *fmts_plain, size_t nfmt, const struct grep_atom_soa_s *soa, const char *line, size_t llen,
	  const char *fsname, double ord, char mode, int fsidx, const char *fmthex)
{
	EX_CTR(c_eval, "evaluations");
	EX_CTR(c_cases, "needle_search_cases");
	EX_CTR(c_nontriv, "nontrivial");
	EX_CTR(c_found, "needle_search_matches");
	char key[320], cas[1500], cmd[1200], le[700], lh[700], fsn[256], sw[128];
	const char *pl;
	struct fres a, b, c;
	int rc, bad = 0;

	if (xb_skip()) {
		return 0;
	}
	++*c_cases;
	xe_hex(line, llen, lh, sizeof(lh));
	if (mode == 'G') {
		snprintf(cas, sizeof(cas), "G %s %s", fmthex, lh);
	} else if (mode == 'T') {
		snprintf(cas, sizeof(cas), "T %d", fsidx);
	} else {
		snprintf(cas, sizeof(cas), "L %d %s", fsidx, lh);
	}
	pl = xa_place(&xa_inp, line, llen + 1);
	xr.n = 0;
	xr.total = 0;
	xt_fp = xt_ep = xt_in_fp = xt_in_ep = NULL;
	rc = do_find(pl, llen, soa, &a);
	++*c_eval;
	if (rc || xr.n || a.sp < 0 || a.sp > (long)llen || a.ep < 0 || a.ep > (long)llen || a.ep < a.sp) {
		xe_esc(line, llen, le, sizeof(le));
		fmtset_name(fmts_plain, nfmt, fsn, sizeof(fsn));
		cmd[0] = '\0';
		if (xe_printable(line, llen) && llen && llen < 80) {
			size_t k = (size_t)snprintf(cmd, sizeof(cmd), "echo '%s' | dconv -S", line);
			for (size_t i = 0; i < nfmt && xe_printable(fmts_plain[i], strlen(fmts_plain[i])); i++) {
				k += (size_t)snprintf(cmd + k, sizeof(cmd) - k, " -i '%s'", fmts_plain[i]);
			}
		}
	}
	if (rc) {
		snprintf(key, sizeof(key), "dt_io_find_strpdt2: %s%s%s", sig_where(sw, sizeof(sw)), fsname ? " formats " : "", fsname ? fsname : "");
		report(key, ord, cas, *cmd ? cmd : NULL, "dt_io_find_strpdt2(\"%s\", %zu, needles of %s): %s", le, llen, fsn, sw);
		return xg_must_restart();
	}
	for (int i = 0; i < xr.n; i++) {
		snprintf(key, sizeof(key), "dt_io_find_strpdt2: %s in %s, specifier %s%s%s", xr.r[i].kind, xr.r[i].site, xr.r[i].tok[0] ? xr.r[i].tok : "-",
			 fsname ? " formats " : "", fsname ? fsname : "");
		report(key, ord, cas, *cmd ? cmd : NULL, "dt_io_find_strpdt2(\"%s\", %zu, needles of %s), line in a block of exactly %zu bytes: %s, distance %ld (in %s, specifier %s); %s",
		       le, llen, fsn, llen + 1, xr.r[i].kind, xr_dist, xr.r[i].site, xr.r[i].tok[0] ? xr.r[i].tok : "-", a.unk ? "no match" : "match");
		bad = 1;
	}
	if (a.sp < 0 || a.sp > (long)llen || a.ep < 0 || a.ep > (long)llen) {
		snprintf(key, sizeof(key), "dt_io_find_strpdt2: match pointers outside the line%s%s", fsname ? " formats " : "", fsname ? fsname : "");
		report(key, ord, cas, *cmd ? cmd : NULL, "dt_io_find_strpdt2(\"%s\", %zu, needles of %s): match [%ld, %ld) in a line of length %zu (%s)",
		       le, llen, fsn, a.sp, a.ep, llen, a.unk ? "no match" : "match");
		bad = 1;
	}
	if (a.sp >= 0 && a.ep <= (long)llen && a.ep < a.sp) {
		snprintf(key, sizeof(key), "dt_io_find_strpdt2: end of the match in front of its start%s%s", fsname ? " formats " : "", fsname ? fsname : "");
		report(key, ord, cas, *cmd ? cmd : NULL, "dt_io_find_strpdt2(\"%s\", %zu, needles of %s): match [%ld, %ld) in a line of length %zu (%s); the tools copy ep - sp bytes / go on from ep",
		       le, llen, fsn, a.sp, a.ep, llen, a.unk ? "no match" : "match");
		bad = 1;
	}
	ex_outcome(ex_hash_mix(ex_hash(a.raw, 16), (uint64_t)(a.sp * 64 + a.ep)));
	if (!a.unk) {
		++*c_found;
	}
	/* the line followed by other bytes (in a stream the next line follows) */
	pl = xa_place_fill(&xa_inp, line, llen + 1, FILL_A, sizeof(FILL_A));
	if (do_find(pl, llen, soa, &b)) {
		return xg_must_restart();
	}
	pl = xa_place_fill(&xa_inp, line, llen + 1, FILL_B, sizeof(FILL_B));
	if (do_find(pl, llen, soa, &c)) {
		return xg_must_restart();
	}
	*c_eval += 2;
	if (memcmp(b.raw, c.raw, 16) || b.sp != c.sp || b.ep != c.ep) {
		char tok[32];
		xe_esc(line, llen, le, sizeof(le));
		fmtset_name(fmts_plain, nfmt, fsn, sizeof(fsn));
		xt_label_last(tok, sizeof(tok));
		snprintf(key, sizeof(key), "dt_io_find_strpdt2: result depends on the bytes behind the line's terminator%s, last specifier %s%s%s",
			 b.unk != c.unk ? " (match or not)" : "", tok, fsname ? " formats " : "", fsname ? fsname : "");
		report(key, ord, cas, NULL, "dt_io_find_strpdt2(\"%s\", %zu, needles of %s): %s [%ld,%ld) when ' 2012-03-04T12:34:56...' follows the terminator, %s [%ld,%ld) when other bytes follow",
		       le, llen, fsn, b.unk ? "no match" : "match", b.sp, b.ep, c.unk ? "no match" : "match", c.sp, c.ep);
		bad = 1;
	}
	if (bad) {
		++*c_nontriv;
	}
	if (replay_verbose) {
		xe_esc(line, llen, le, sizeof(le));
		fmtset_name(fmts_plain, nfmt, fsn, sizeof(fsn));
		printf("  dt_io_find_strpdt2(\"%s\", %zu, needles of %s): %s [%ld,%ld), %llu memory reports\n", le, llen, fsn, a.unk ? "no match" : "match", a.sp, a.ep,
		       (unsigned long long)xr.total);
	}
	if (ex_want_sample()) {
		xe_esc(line, llen, le, sizeof(le));
		fmtset_name(fmts_plain, nfmt, fsn, sizeof(fsn));
		ex_sample("dt_io_find_strpdt2(\"%s\", needles of %s) -> %s [%ld,%ld)", le, fsn, a.unk ? "no match" : "match", a.sp, a.ep);
	}
	(void)fmts;
	return 0;
}

/* place up to 3 formats in exact-size blocks of the format slot (consecutive 64-byte cells) */
static void
place_formats(char *const *plain, size_t nfmt, char **placed)
{
	/* one slot, several strings: each gets an 8-aligned cell; everything between the strings stays poisoned */
	if (xa_fmt.open) {
		__asan_poison_memory_region(xa_fmt.p, (xa_fmt.open + 7U) & ~(size_t)7U);
	}
	xa_fmt.open = 0;
	for (size_t i = 0; i < nfmt; i++) {
		size_t l = strlen(plain[i]) + 1;
		char *p = (char*)xa_fmt.p + 64 * i;
		__asan_unpoison_memory_region(p, l);
		memcpy(p, plain[i], l);
		placed[i] = p;
		xa_fmt.open = 64 * i + l;
	}
	xt_fmt_lo = nfmt ? placed[0] : NULL;
	xt_fmt_hi = nfmt ? placed[nfmt - 1] + strlen(plain[nfmt - 1]) + 1 : NULL;
}

static size_t
valid_text(const char *fmt, size_t flen, char *out, size_t osz)
{
	static char safe[64];
	size_t n = 0;
	int rc;
	memset(safe, 0, sizeof(safe));
	memcpy(safe, fmt, flen);
	memset(out, 0, osz);
	XG_BEGIN(rc) {
		n = dt_strfdt(out, osz - 1, safe, val);
	} XG_END;
	if (rc || n >= osz) {
		n = 0;
	}
	out[n] = '\0';
	return n;
}

static const char *const fixed_lines[] = {
	"2012-03-04", "foo 2012-03-04T12:34:56 bar", "12:34:56", "Sun Mar  4 2012", "4th March 2012", "1330864496", "\x01", "----", "::::",
	"a-", "-2012", "%", "\t", "MMXII", "Q1", "pm", "x2012-03-04", "20120304", "4th", "1st2nd3rd4thst", NULL /* 300 digits */,
};
#define NFIXED	((int)(sizeof(fixed_lines) / sizeof(*fixed_lines)))
static char digits300[301];

static int g_maxlen;
static uint64_t g_nenum;

static int
unit_G(uint64_t idx)
{
	EX_CTR(c_states, "states");
	EX_CTR(c_eval, "evaluations");
	EX_CTR(c_atoms, "grep_atom_cases");
	char fmt[32], fh[80], fe[80], text[128], line[200], key[256], cas[128], sw[128];
	char *plain[1], *placed[1];
	struct grep_atom_soa_s soa;
	size_t flen, tlen;
	int rc;

	++*c_states;
	if (idx < g_nenum) {
		flen = idx2str(idx, SF, fmt);
	} else if (idx < g_nenum + NNAMED) {
		strcpy(fmt, named_fmt[idx - g_nenum]);
		flen = strlen(fmt);
	} else {
		/* a byte >= 0x80 among the first four */
		flen = xh_format(idx - g_nenum - NNAMED, fmt);
	}
	xe_hex(fmt, flen, fh, sizeof(fh));
	xe_esc(fmt, flen, fe, sizeof(fe));
	plain[0] = fmt;
	tlen = valid_text(fmt, flen, text, sizeof(text));

	/* calc_grep_atom on its own */
	if (!xb_skip()) {
		++*c_atoms;
		place_formats(plain, 1, placed);
		xr.n = 0;
		xr.total = 0;
		xt_fp = xt_ep = xt_in_fp = xt_in_ep = NULL;
		XG_BEGIN(rc) {
			struct grep_atom_s a = calc_grep_atom(placed[0]);
			ex_outcome(ex_hash_mix((uint64_t)(unsigned char)a.needle, (uint64_t)a.pl.flags * 65536U + (uint64_t)(uint8_t)a.pl.off_min * 256U + (uint8_t)a.pl.off_max));
		} XG_END;
		++*c_eval;
		snprintf(cas, sizeof(cas), "A %s", fh);
		if (rc) {
			snprintf(key, sizeof(key), "calc_grep_atom: %s", sig_where(sw, sizeof(sw)));
			report(key, (double)flen, cas, NULL, "calc_grep_atom(\"%s\"): %s", fe, sw);
			if (xg_must_restart()) {
				return 1;
			}
		}
		for (int i = 0; i < xr.n; i++) {
			snprintf(key, sizeof(key), "calc_grep_atom: %s in %s, specifier %s", xr.r[i].kind, xr.r[i].site, xr.r[i].tok[0] ? xr.r[i].tok : "-");
			report(key, (double)flen, cas, NULL, "calc_grep_atom(\"%s\") with the format in an exact-size block: %s, distance %ld (in %s)", fe, xr.r[i].kind, xr_dist,
			       xr.r[i].site);
		}
		if (replay_verbose) {
			printf("  calc_grep_atom(\"%s\"): %llu memory reports\n", fe, (unsigned long long)xr.total);
		}
	}
	/* build_needle + searches */
	place_formats(plain, 1, placed);
	xr.n = 0;
	xr.total = 0;
	soa = make_needles(placed, 1, &rc);
	if (!xb_skip()) {
		snprintf(cas, sizeof(cas), "B %s", fh);
		if (rc) {
			snprintf(key, sizeof(key), "build_needle: %s", sig_where(sw, sizeof(sw)));
			report(key, (double)flen, cas, NULL, "build_needle(16 atoms, {\"%s\"}): %s", fe, sw);
			return xg_must_restart();
		}
		for (int i = 0; i < xr.n; i++) {
			snprintf(key, sizeof(key), "build_needle: %s in %s, specifier %s", xr.r[i].kind, xr.r[i].site, xr.r[i].tok[0] ? xr.r[i].tok : "-");
			report(key, (double)flen, cas, NULL, "build_needle(16 atoms, {\"%s\"}): %s, distance %ld (in %s)", fe, xr.r[i].kind, xr_dist, xr.r[i].site);
		}
	} else if (rc) {
		return xg_must_restart();
	}
	if (soa.needle == NULL) {
		return 0;
	}
	/* lines */
	if (find_case(placed, plain, 1, &soa, text, tlen, NULL, (double)flen, 'G', 0, fh)) {
		return 1;
	}
	snprintf(line, sizeof(line), "xx %s yy", text);
	if (find_case(placed, plain, 1, &soa, line, strlen(line), NULL, (double)flen, 'G', 0, fh)) {
		return 1;
	}
	snprintf(line, sizeof(line), "ab %s", text);
	for (size_t l = 0; l < 3 + tlen; l++) {
		char t[200];
		memcpy(t, line, l);
		t[l] = '\0';
		if (find_case(placed, plain, 1, &soa, t, l, NULL, (double)flen, 'G', 0, fh)) {
			return 1;
		}
	}
	for (int k = 0; k < NFIXED; k++) {
		const char *t = fixed_lines[k] ? fixed_lines[k] : digits300;
		if (find_case(placed, plain, 1, &soa, t, strlen(t), NULL, (double)flen, 'G', 0, fh)) {
			return 1;
		}
	}
	return 0;
}

/* mode L: format sets */
struct fset {
	const char *name;
	size_t n;
	const char *f[3];
};
static const struct fset fsets[] = {
	{"(none)", 0, {NULL}},
	{"%Y-%m-%d", 1, {"%Y-%m-%d"}},
	{"%d %b %Y", 1, {"%d %b %Y"}},
	{"%s", 1, {"%s"}},
	{"%a", 1, {"%a"}},
	{"%H:%M", 1, {"%H:%M"}},
	{"%dth %B", 1, {"%dth %B"}},
	{"%G-W%V-%u", 1, {"%G-W%V-%u"}},
	{"%Y%m%d", 1, {"%Y%m%d"}},
	{"%dth", 1, {"%dth"}},
	{"%_a%d", 1, {"%_a%d"}},
	{"%_b%y", 1, {"%_b%y"}},
	{"%I%p", 1, {"%I%p"}},
	{"%Od", 1, {"%Od"}},
	{"jdn", 1, {"jdn"}},
	{"%Y-%m-%d,%H:%M:%S,%d/%m/%y", 3, {"%Y-%m-%d", "%H:%M:%S", "%d/%m/%y"}},
};
#define NFSETS	((int)(sizeof(fsets) / sizeof(*fsets)))

/* ---- mode T: two formats, one of digits only and one with a separator, over lines where the separator match is
 * preceded by text the digits-only format tries (the same families as c10_tools.c) ---- */
static const char *const tf_digits[] = {"%Y%m%d", "%H%M%S", "%s", "%Y%j"};
static const char *const tf_needle[] = {"%d/%m/%Y", "%Y-%m-%d", "%H:%M:%S", "%d %b %Y"};
static const char *const tf_text[] = {"07/03/2012", "2012-03-07", "12:34:56", "07 Mar 2012"};
static const char *const tf_front[] = {"id 99999999 seen ", "id 9999 seen ", "id 20120304 seen ", "", "seen ", "99999999", "99999999 ", "20120304 ", "id 99999999 and 9999 and 20120304 seen ", "-99999999 "};
static const char *const tf_back[] = {" end", "", " end 99999999", " and 08/03/2012 2012-03-08 12:34:57 08 Mar 2012"};
#define TF_ND	4
#define TF_NN	4
#define TF_NF	10
#define TF_NB	4
#define TF_TOTAL	(TF_ND * TF_NN * 2)
static int t_only = -1;
static int
unit_T(uint64_t idx)
{
	EX_CTR(c_states, "states");
	int k = (int)idx, order = k % 2, ni = k / 2 % TF_NN, di = k / 2 / TF_NN % TF_ND, rc;
	char *plain[3], *placed[3], line[200];
	struct grep_atom_soa_s soa;

	++*c_states;
	plain[0] = (char*)(order ? tf_needle[ni] : tf_digits[di]);
	plain[1] = (char*)(order ? tf_digits[di] : tf_needle[ni]);
	place_formats(plain, 2, placed);
	xr.n = 0;
	xr.total = 0;
	soa = make_needles(placed, 2, &rc);
	if (rc) {
		return 0;
	}
	for (int f = 0; f < TF_NF; f++) {
		for (int b = 0; b < TF_NB; b++) {
			int l = snprintf(line, sizeof(line), "%s%s%s", tf_front[f], tf_text[ni], tf_back[b]);
			if (t_only >= 0 && t_only != f * TF_NB + b) {
				continue;
			}
			if (find_case(placed, plain, 2, &soa, line, (size_t)l, order ? "(one with a separator, one of digits only)" : "(one of digits only, one with a separator)", (double)l, 'T',
				      k * 64 + f * TF_NB + b, NULL)) {
				return 1;
			}
		}
	}
	return 0;
}

/* ---- mode W: the argument reader dt_io_strpdt and its catch words: WORD + filler of every length 1..40 (thorough 80).
 * Only the word itself (any case) is the word; anything longer goes to the formats, and what no format reads is unknown.
 * The expectation is the library's own answer for the text under the formats, so nothing beyond that is demanded. ---- */
static const char *const w_words[] = {"now", "today", "date", "tomo", "tomorrow", "yday", "yest", "yesterday", "time",
	"NOW", "TODAY", "DATE", "TOMO", "TOMORROW", "YDAY", "YEST", "YESTERDAY", "TIME", "Now", "toDay"};
#define NWORDS	((int)(sizeof(w_words) / sizeof(*w_words)))
static const char *const w_fill[] = {" xyz", "          ", "1234567890", ": 4th March 2012 ", " 2012-03-04T12:34:56", "-03-04", "x", "\t"};
static const char *const w_fill_name[] = {"blanks and letters", "blanks", "digits", "a date in words", "an ISO date-time", "the tail of a date", "letters", "tabs"};
#define NWFILL	((int)(sizeof(w_fill) / sizeof(*w_fill)))
static const struct fset w_sets[] = {
	{"(none)", 0, {NULL}},
	{"%Y-%m-%d", 1, {"%Y-%m-%d"}},
	{"%d %b %Y,%H:%M:%S", 2, {"%d %b %Y", "%H:%M:%S"}},
};
#define NWSETS	((int)(sizeof(w_sets) / sizeof(*w_sets)))
static int w_only = -1;
static int
unit_W(uint64_t idx)
{
	EX_CTR(c_states, "states");
	EX_CTR(c_eval, "evaluations");
	EX_CTR(c_cases, "catch_word_cases");
	EX_CTR(c_nontriv, "nontrivial");
	const char *w = w_words[idx];
	size_t wl = strlen(w);
	int maxn = ex.thorough ? 80 : 40, rc, sub = 0;
	char text[128], key[256], cas[64], te[300];

	++*c_states;
	for (int fi = 0; fi < NWFILL; fi++) {
		size_t pl = strlen(w_fill[fi]);
		for (int n = 1; n <= maxn; n++) {
			int special = 0;
			memcpy(text, w, wl);
			for (int i = 0; i < n; i++) {
				text[wl + (size_t)i] = w_fill[fi][(size_t)i % pl];
			}
			text[wl + (size_t)n] = '\0';
			for (int j = 0; j < 9; j++) {
				special |= !strcasecmp(text, w_words[j]);
			}
			for (int k = 0; k < NWSETS; k++, sub++) {
				char *plain[3], *placed[3];
				const char *pi;
				struct dt_dt_s v, e = {DT_UNK};
				if (special || (w_only >= 0 && w_only != sub) || xb_skip()) {
					continue;
				}
				++*c_cases;
				for (size_t i = 0; i < w_sets[k].n; i++) {
					plain[i] = (char*)w_sets[k].f[i];
				}
				place_formats(plain, w_sets[k].n, placed);
				pi = xa_place(&xa_inp, text, wl + (size_t)n + 1);
				xr.n = 0;
				xr.total = 0;
				XG_BEGIN(rc) {
					v = dt_io_strpdt(pi, placed, w_sets[k].n, NULL);
					/* what the formats make of it */
					if (w_sets[k].n == 0) {
						e = dt_strpdt(pi, NULL, NULL);
					}
					for (size_t i = 0; i < w_sets[k].n && dt_unk_p(e); i++) {
						e = dt_strpdt(pi, placed[i], NULL);
					}
				} XG_END;
				++*c_eval;
				snprintf(cas, sizeof(cas), "W %d %d", (int)idx, sub);
				xe_esc(text, wl + (size_t)n, te, sizeof(te));
				if (rc) {
					char sw[128];
					snprintf(key, sizeof(key), "dt_io_strpdt: %s, catch word followed by text", sig_where(sw, sizeof(sw)));
					report(key, (double)(wl + (size_t)n), cas, NULL, "dt_io_strpdt(\"%s\", formats %s): %s", te, w_sets[k].name, sw);
					if (xg_must_restart()) {
						return 1;
					}
					continue;
				}
				for (int i = 0; i < xr.n; i++) {
					snprintf(key, sizeof(key), "dt_io_strpdt: %s in %s, catch word followed by text", xr.r[i].kind, xr.r[i].site);
					report(key, (double)(wl + (size_t)n), cas, NULL, "dt_io_strpdt(\"%s\", formats %s) with the text in an exact-size block: %s (in %s)", te, w_sets[k].name,
					       xr.r[i].kind, xr.r[i].site);
				}
				ex_outcome(ex_hash_mix((uint64_t)dt_unk_p(v), (uint64_t)(k * 2 + dt_unk_p(e))));
				if (!dt_unk_p(v) && dt_unk_p(e)) {
					char cmd[400] = "";
					++*c_nontriv;
					if (xe_printable(text, wl + (size_t)n)) {
						size_t c = (size_t)snprintf(cmd, sizeof(cmd), "dconv");
						for (size_t i = 0; i < w_sets[k].n; i++) {
							c += (size_t)snprintf(cmd + c, sizeof(cmd) - c, " -i '%s'", w_sets[k].f[i]);
						}
						snprintf(cmd + c, sizeof(cmd) - c, " '%s'; echo rc=$?", text);
					}
					snprintf(key, sizeof(key), "dt_io_strpdt: text that starts with a catch word (now, today, ...) and goes on is read as the word%s",
						 w_sets[k].n ? ", input formats given" : "");
					report(key, (double)(wl + (size_t)n), cas, *cmd ? cmd : NULL, "dt_io_strpdt(\"%s\", formats %s) is a value although the text is %zu bytes longer than '%s' (%s) and "
					       "no format reads it", te, w_sets[k].name, (size_t)n, w, w_fill_name[fi]);
				} else if (replay_verbose) {
					printf("  dt_io_strpdt(\"%s\", formats %s): %s (formats alone: %s)\n", te, w_sets[k].name, dt_unk_p(v) ? "unknown" : "a value", dt_unk_p(e) ? "unknown" : "a value");
				}
			}
		}
	}
	return 0;
}

struct sres {
	unsigned char raw[16];
};

static int
unit_L(uint64_t idx)
{
	EX_CTR(c_states, "states");
	EX_CTR(c_eval, "evaluations");
	EX_CTR(c_sp, "dt_io_strpdt_cases");
	char inp[32], ie[64], ih[64], key[256], cas[128], sw[128];
	size_t ilen = idx2str(idx, SI, inp);
	int rc;

	++*c_states;
	for (int k = 0; k < NFSETS; k++) {
		char *plain[3], *placed[3];
		struct grep_atom_soa_s soa;
		for (size_t i = 0; i < fsets[k].n; i++) {
			plain[i] = (char*)fsets[k].f[i];
		}
		place_formats(plain, fsets[k].n, placed);
		xr.n = 0;
		xr.total = 0;
		soa = make_needles(placed, fsets[k].n, &rc);
		if (rc || xr.n) {
			/* reported by mode G / once is enough */
			if (idx == 0 && !xb_skip()) {
				snprintf(key, sizeof(key), "build_needle: memory report or signal for format set %s", fsets[k].name);
				report(key, 0, "", NULL, "build_needle over the fixed format set %s fails", fsets[k].name);
			}
			if (rc) {
				continue;
			}
		}
		if (find_case(placed, plain, fsets[k].n, &soa, inp, ilen, fsets[k].name, (double)ilen, 'L', k, NULL)) {
			return 1;
		}
		/* the argument parser of the tools: catch phrases first, then the formats */
		if (!xb_skip()) {
			const char *pi = xa_place(&xa_inp, inp, ilen + 1);
			struct sres a, b, c;
			++*c_sp;
			xr.n = 0;
			xr.total = 0;
			xt_fp = xt_ep = xt_in_fp = xt_in_ep = NULL;
			memset(&a, 0, sizeof(a));
			XG_BEGIN(rc) {
				struct dt_dt_s v = dt_io_strpdt(pi, placed, fsets[k].n, NULL);
				memcpy(a.raw, &v, 16);
			} XG_END;
			++*c_eval;
			xe_esc(inp, ilen, ie, sizeof(ie));
			xe_hex(inp, ilen, ih, sizeof(ih));
			snprintf(cas, sizeof(cas), "S %d %s", k, ih);
			if (rc) {
				snprintf(key, sizeof(key), "dt_io_strpdt: %s formats %s", sig_where(sw, sizeof(sw)), fsets[k].name);
				report(key, (double)ilen, cas, NULL, "dt_io_strpdt(\"%s\", formats %s): %s", ie, fsets[k].name, sw);
				if (xg_must_restart()) {
					return 1;
				}
				continue;
			}
			for (int i = 0; i < xr.n; i++) {
				snprintf(key, sizeof(key), "dt_io_strpdt: %s in %s, specifier %s formats %s", xr.r[i].kind, xr.r[i].site, xr.r[i].tok[0] ? xr.r[i].tok : "-",
					 fsets[k].name);
				report(key, (double)ilen, cas, NULL, "dt_io_strpdt(\"%s\", formats %s) with the text in an exact-size block: %s, distance %ld (in %s)", ie,
				       fsets[k].name, xr.r[i].kind, xr_dist, xr.r[i].site);
			}
			pi = xa_place_fill(&xa_inp, inp, ilen + 1, FILL_A + 1, sizeof(FILL_A) - 1);
			memset(&b, 0, sizeof(b));
			memset(&c, 0, sizeof(c));
			XG_BEGIN(rc) {
				struct dt_dt_s v = dt_io_strpdt(pi, placed, fsets[k].n, NULL);
				memcpy(b.raw, &v, 16);
			} XG_END;
			if (!rc) {
				pi = xa_place_fill(&xa_inp, inp, ilen + 1, FILL_B, sizeof(FILL_B));
				XG_BEGIN(rc) {
					struct dt_dt_s v = dt_io_strpdt(pi, placed, fsets[k].n, NULL);
					memcpy(c.raw, &v, 16);
				} XG_END;
			}
			*c_eval += 2;
			if (rc) {
				if (xg_must_restart()) {
					return 1;
				}
			} else if (memcmp(b.raw, c.raw, 16)) {
				snprintf(key, sizeof(key), "dt_io_strpdt: result depends on the bytes behind the terminator, formats %s", fsets[k].name);
				report(key, (double)ilen, cas, NULL, "dt_io_strpdt(\"%s\", formats %s): different answers for different bytes behind the terminator", ie, fsets[k].name);
			}
			ex_outcome(ex_hash_mix(ex_hash(a.raw, 16), (uint64_t)k));
			if (replay_verbose) {
				struct dt_dt_s v;
				memcpy(&v, a.raw, 16);
				printf("  dt_io_strpdt(\"%s\", formats %s): %s, %llu memory reports\n", ie, fsets[k].name, dt_unk_p(v) ? "unknown" : "a value", (unsigned long long)xr.total);
			}
		}
	}
	return 0;
}

/* mode U: the escape decoder */
static int
unit_U(uint64_t idx)
{
	EX_CTR(c_states, "states");
	EX_CTR(c_eval, "evaluations");
	EX_CTR(c_cases, "unescape_cases");
	EX_CTR(c_nontriv, "nontrivial");
	char s[32], se[128], sh[80], oe[128], key[256], cas[128], out[32];
	size_t len = idx2str(idx, SU, s), olen;
	char *p;
	long where;
	int rc, canary;

	++*c_states;
	if (xb_skip()) {
		return 0;
	}
	++*c_cases;
	/* the string is an argv element in the tools; here: output slot, exact size, canaries around */
	xa_out.what = "string";
	xa_open(&xa_out, len + 1);
	p = (char*)xa_out.p;
	memcpy(p, s, len + 1);
	xr.n = 0;
	xr.total = 0;
	xt_fp = xt_in_fp = NULL;
	XG_BEGIN(rc) {
		dt_io_unescape(p);
	} XG_END;
	++*c_eval;
	memcpy(out, p, len + 1);
	canary = xa_check(&xa_out, len + 1, &where);
	xe_esc(s, len, se, sizeof(se));
	xe_hex(s, len, sh, sizeof(sh));
	snprintf(cas, sizeof(cas), "U %s", sh);
	if (rc) {
		snprintf(key, sizeof(key), "dt_io_unescape: %s", xg_signame(xr_sig));
		report(key, (double)len, cas, NULL, "dt_io_unescape(\"%s\"): %s", se, xg_signame(xr_sig));
		return xg_must_restart();
	}
	for (int i = 0; i < xr.n; i++) {
		snprintf(key, sizeof(key), "dt_io_unescape: %s in %s", xr.r[i].kind, xr.r[i].site);
		report(key, (double)len, cas, NULL, "dt_io_unescape(\"%s\") with the string in a block of exactly %zu bytes: %s, distance %ld", se, len + 1, xr.r[i].kind, xr_dist);
	}
	if (canary && xr.n == 0) {
		snprintf(key, sizeof(key), "dt_io_unescape: bytes outside the string changed");
		report(key, (double)len, cas, NULL, "dt_io_unescape(\"%s\"): byte at offset %ld changed", se, where);
	}
	olen = strnlen(out, len + 1);
	if (olen > len) {
		snprintf(key, sizeof(key), "dt_io_unescape: result not terminated inside the block");
		report(key, (double)len, cas, NULL, "dt_io_unescape(\"%s\"): no NUL within the %zu bytes of the block", se, len + 1);
	} else if (olen < len || memcmp(out, s, len)) {
		++*c_nontriv;
	}
	ex_outcome(ex_hash(out, olen <= len ? olen : len));
	if (replay_verbose) {
		printf("  dt_io_unescape(\"%s\") -> \"%s\", %llu memory reports\n", se, xe_esc(out, olen <= len ? olen : len, oe, sizeof(oe)), (unsigned long long)xr.total);
	}
	if (ex_want_sample()) {
		ex_sample("dt_io_unescape(\"%s\") -> \"%s\"", se, xe_esc(out, olen <= len ? olen : len, oe, sizeof(oe)));
	}
	return 0;
}

/* mode R: the duration loop of dadd/dseq/dround */
static int
unit_R(uint64_t idx)
{
	EX_CTR(c_states, "states");
	EX_CTR(c_eval, "evaluations");
	EX_CTR(c_cases, "duration_loop_cases");
	EX_CTR(c_nontriv, "nontrivial");
	char s[32], se[128], sh[80], key[256], cas[128], cmd[128];
	size_t len = idx2str(idx, SR, s);
	const char *p;
	volatile int iters = 0, res = 0;
	size_t ndurs = 0;
	int rc;

	++*c_states;
	if (xb_skip()) {
		return 0;
	}
	++*c_cases;
	p = xa_place(&xa_inp, s, len + 1);
	xr.n = 0;
	xr.total = 0;
	xt_fp = xt_in_fp = NULL;
	XG_BEGIN(rc) {
		struct __strpdtdur_st_s st = {0};
		do {
			res = dt_io_strpdtdur(&st, p);
			iters++;
			*c_eval += 1;
		} while (res >= 0 && __strpdtdur_more_p(&st) && iters < 64);
		ndurs = st.ndurs;
		__strpdtdur_free(&st);
	} XG_END;
	xe_esc(s, len, se, sizeof(se));
	xe_hex(s, len, sh, sizeof(sh));
	snprintf(cas, sizeof(cas), "R %s", sh);
	cmd[0] = '\0';
	if (xe_printable(s, len) && len) {
		snprintf(cmd, sizeof(cmd), "dadd 2012-03-04 -- '%s'", s);
	}
	if (rc) {
		snprintf(key, sizeof(key), "dt_io_strpdtdur loop: %s", xg_signame(xr_sig));
		report(key, (double)len, cas, *cmd ? cmd : NULL, "duration loop over \"%s\": %s", se, xg_signame(xr_sig));
		return xg_must_restart();
	}
	for (int i = 0; i < xr.n; i++) {
		snprintf(key, sizeof(key), "dt_io_strpdtdur loop: %s in %s", xr.r[i].kind, xr.r[i].site);
		report(key, (double)len, cas, *cmd ? cmd : NULL, "duration loop over \"%s\" in a block of exactly %zu bytes: %s, distance %ld (in %s)", se, len + 1, xr.r[i].kind,
		       xr_dist, xr.r[i].site);
	}
	if (iters >= 64) {
		snprintf(key, sizeof(key), "dt_io_strpdtdur loop: does not end (64 rounds on a string of at most %d bytes)", g_maxlen);
		report(key, (double)len, cas, *cmd ? cmd : NULL, "duration loop over \"%s\": still 'more' after 64 rounds", se);
	}
	if (ndurs > 1) {
		++*c_nontriv;
	}
	ex_outcome(ex_hash_mix((uint64_t)ndurs, (uint64_t)(iters * 4 + (res < 0))));
	if (replay_verbose) {
		printf("  duration loop over \"%s\": %d rounds, %zu durations, last result %d, %llu memory reports\n", se, iters, ndurs, res, (unsigned long long)xr.total);
	}
	if (ex_want_sample()) {
		ex_sample("duration loop over \"%s\": %d rounds, %zu durations", se, iters, ndurs);
	}
	return 0;
}

/* mode M: long duration lists through dt_io_strpdtdur (the list grows in steps of 16 entries).
 * unit = list length N; cases = patterns x sign variants x {one concatenated string, one string per element}.
 * Oracle: no memory report / signal, and the accumulated list equals the durations parsed one at a time. */
static int
unit_M(uint64_t idx)
{
	EX_CTR(c_states, "states");
	EX_CTR(c_eval, "evaluations");
	EX_CTR(c_cases, "duration_list_cases");
	EX_CTR(c_nontriv, "nontrivial");
	int n = (int)idx;

	++*c_states;
	for (int pat = 0; pat < XD_NPAT; pat++) {
		for (int sv = 0; sv < (pat >= 10 ? 1 : 2); sv++) {
			for (int form = 0; form < 2; form++) {
				static struct dt_dtdur_s want[80], got[80];
				char all[1200], el[24], key[256], cas[64], cmd[1400];
				volatile size_t ngot = 0;
				volatile int res = 0, rounds = 0;
				int nwant = 0, rc, wrote = 0;

				if (xb_skip()) {
					continue;
				}
				++*c_cases;
				/* one at a time */
				for (int i = 0; i < n; i++) {
					struct __strpdtdur_st_s s1 = {0};
					xd_elem(pat, sv, i, el, sizeof(el));
					if (dt_io_strpdtdur(&s1, el) >= 0 && s1.ndurs == 1) {
						want[nwant++] = s1.durs[0];
					}
					__strpdtdur_free(&s1);
					++*c_eval;
				}
				if (form == 0) {
					/* reading (src/dt-io.c: "the co-class prefix belongs to this string only"): inside ONE string a
					 * '/' holds for the rest of that string */
					int seen = 0;
					for (int i = 0; i < nwant; i++) {
						seen |= want[i].cocl;
						want[i].cocl = (unsigned)seen;
					}
				}
				xd_join(pat, sv, n, "", all, sizeof(all));
				snprintf(cas, sizeof(cas), "M %d %d %d %d", n, pat, sv, form);
				snprintf(cmd, sizeof(cmd), form ? "dadd 2012-03-04T12:34:56 %s   # (every duration its own argument)" : "dadd 2012-03-04T12:34:56 -- '%s'", all);
				xr.n = 0;
				xr.total = 0;
				xt_fp = xt_in_fp = NULL;
				XG_BEGIN(rc) {
					struct __strpdtdur_st_s st = {0};
					if (form == 0) {
						const char *p = xa_place(&xa_inp, all, strlen(all) + 1);
						do {
							res = dt_io_strpdtdur(&st, p);
							rounds++;
							*c_eval += 1;
						} while (res >= 0 && __strpdtdur_more_p(&st) && rounds < 200);
					} else {
						for (int i = 0; i < n && res >= 0; i++) {
							size_t l = xd_elem(pat, sv, i, el, sizeof(el));
							const char *p = xa_place(&xa_inp, el, l + 1);
							do {
								res = dt_io_strpdtdur(&st, p);
								rounds++;
								*c_eval += 1;
							} while (res >= 0 && __strpdtdur_more_p(&st) && rounds < 200);
						}
					}
					ngot = st.ndurs < 80 ? st.ndurs : 80;
					if (xr.total == 0) {
						memcpy(got, st.durs, ngot * sizeof(*got));
						__strpdtdur_free(&st);
					}
				} XG_END;
				if (rc) {
					snprintf(key, sizeof(key), "duration list (%s): %s", form ? "one string per duration" : "one concatenated string", xg_signame(xr_sig));
					report(key, (double)n, cas, cmd, "list of %d durations '%s': %s", n, all, xg_signame(xr_sig));
					return 1;
				}
				for (int i = 0; i < xr.n; i++) {
					snprintf(key, sizeof(key), "duration list (%s): %s in %s", form ? "one string per duration" : "one concatenated string", xr.r[i].kind, xr.r[i].site);
					report(key, (double)n, cas, cmd, "list of %d durations '%s': %s (in %s)", n, all, xr.r[i].kind, xr.r[i].site);
					wrote |= strncmp(xr.r[i].kind, "write", 5) == 0;
				}
				if (xr.n == 0 && (n == 0 ? 0 : (res < 0 || (int)ngot != nwant || memcmp(got, want, ngot * sizeof(*got))))) {
					int at = 0;
					while (at < (int)ngot && at < nwant && !memcmp(got + at, want + at, sizeof(*got))) {
						at++;
					}
					snprintf(key, sizeof(key), "duration list (%s): the accumulated list differs from the durations read one at a time", form ? "one string per duration" : "one concatenated string");
					report(key, (double)n, cas, cmd, "list of %d durations '%s': %zu entries (result %d), one at a time gives %d; first difference at entry %d", n, all,
					       (size_t)ngot, res, nwant, at);
				}
				if (n > 16) {
					++*c_nontriv;
				}
				ex_outcome(ex_hash_mix(ex_hash(got, ngot * sizeof(*got)), (uint64_t)ngot));
				if (replay_verbose) {
					printf("  list of %d durations '%s' (%s): %zu entries, %llu memory reports\n", n, all, form ? "one string each" : "one string", (size_t)ngot,
					       (unsigned long long)xr.total);
				}
				if (ex_want_sample()) {
					ex_sample("duration list n=%d '%s' (%s) -> %zu entries", n, all, form ? "one string each" : "one string", (size_t)ngot);
				}
				if (wrote || xr.total) {
					/* memory behind a heap block was written: carry on in a fresh process */
					return 1;
				}
			}
		}
	}
	return 0;
}

static char g_mode;
static void
on_death(uint64_t idx, uint64_t sub, int st)
{
	char key[128], cas[64], detail[256];
	snprintf(key, sizeof(key), "mode %c: child process died (%s %d) without unwinding", g_mode, WIFSIGNALED(st) ? "signal" : "status",
		 WIFSIGNALED(st) ? WTERMSIG(st) : WEXITSTATUS(st));
	snprintf(cas, sizeof(cas), "X %c %llu %llu", g_mode, (unsigned long long)idx, (unsigned long long)sub);
	snprintf(detail, sizeof(detail), "the child working on case %llu of string #%llu of mode %c died: wait status 0x%x", (unsigned long long)sub,
		 (unsigned long long)idx, g_mode, st);
	xv_viol(key, (double)idx, cas, NULL, detail);
}
static int
run_unit(char mode, uint64_t idx)
{
	switch (mode) {
	case 'G': return unit_G(idx);
	case 'L': return unit_L(idx);
	case 'T': return unit_T(idx);
	case 'W': return unit_W(idx);
	case 'U': return unit_U(idx);
	case 'R': return unit_R(idx);
	case 'M': return unit_M(idx);
	}
	return 0;
}
static int unit_cb(uint64_t idx) { return run_unit(g_mode, idx); }

/* replay helpers: find the unit index of a string */
static uint64_t
str2idx(const char *s, size_t len, const char *alpha)
{
	uint64_t base = 0, p = 1, v = 0;
	for (size_t l = 0; l < len; l++, p *= NA) {
		base += p;
	}
	for (size_t i = 0; i < len; i++) {
		const char *q = memchr(alpha, s[i], NA);
		v = v * NA + (uint64_t)(q ? q - alpha : 0);
	}
	return base + v;
}

int
main(int argc, char *argv[])
{
	EX_CTR(c_states, "states");
	EX_CTR(c_traces, "traces");
	EX_CTR(c_eval, "evaluations");
	EX_CTR(c_nontriv, "nontrivial");
	uint64_t slice = 0;
	int lenG, lenL, lenU, lenR;

	ex_init(argc, argv);
	xs_load();
	xa_init(&xa_fmt);
	xa_init(&xa_inp);
	xa_init(&xa_out);
	xa_init(&xa_aux);
	memset(digits300, '7', 300);
	dt_set_base(dt_strpdt("2012-03-04T12:00:00", NULL, NULL));
	val = dt_strpdt("2012-03-04T12:34:56", NULL, NULL);
	lenG = ex.thorough ? 5 : 4;
	lenL = ex.thorough ? 5 : 4;
	lenU = ex.thorough ? 6 : 5;
	lenR = ex.thorough ? 6 : 5;
	for (int i = 1; i + 1 < argc; i++) {
		if (!strcmp(argv[i], "--lenG")) lenG = atoi(argv[i + 1]);
		if (!strcmp(argv[i], "--lenL")) lenL = atoi(argv[i + 1]);
		if (!strcmp(argv[i], "--lenU")) lenU = atoi(argv[i + 1]);
		if (!strcmp(argv[i], "--lenR")) lenR = atoi(argv[i + 1]);
	}

	if (ex.cas) {
		char h1[1400], h2[1400], b1[700], b2[700];
		size_t l1, l2;
		int k;
		replay_verbose = 1;
		xg_init(1000);
		/* cases are re-executed by running their unit and skipping to the case: the unit is cheap */
		if ((ex.cas[0] == 'A' || ex.cas[0] == 'B') && sscanf(ex.cas + 1, " %1399s", h1) == 1) {
			l1 = xe_unhex(h1, b1, sizeof(b1) - 1);
			b1[l1] = '\0';
			g_nenum = UINT64_MAX;
			unit_G(str2idx(b1, l1, SF));
		} else if (ex.cas[0] == 'G' && sscanf(ex.cas, "G %1399s %1399s", h1, h2) == 2) {
			char *plain[1], *placed[1];
			struct grep_atom_soa_s soa;
			int rc;
			l1 = xe_unhex(h1, b1, sizeof(b1) - 1);
			b1[l1] = '\0';
			l2 = xe_unhex(h2, b2, sizeof(b2) - 1);
			b2[l2] = '\0';
			plain[0] = b1;
			place_formats(plain, 1, placed);
			soa = make_needles(placed, 1, &rc);
			if (!rc) {
				find_case(placed, plain, 1, &soa, b2, l2, NULL, (double)l1, 'G', 0, h1);
			}
		} else if ((ex.cas[0] == 'L' || ex.cas[0] == 'S') && sscanf(ex.cas + 1, " %d %1399s", &k, h2) == 2 && k >= 0 && k < NFSETS) {
			l2 = xe_unhex(h2, b2, sizeof(b2) - 1);
			b2[l2] = '\0';
			unit_L(str2idx(b2, l2, SI));
		} else if (ex.cas[0] == 'W' && sscanf(ex.cas, "W %d %d", &k, &w_only) == 2 && k >= 0 && k < NWORDS && w_only >= 0) {
			ex.thorough = 1;
			unit_W((uint64_t)k);
		} else if (ex.cas[0] == 'T' && sscanf(ex.cas, "T %d", &k) == 1 && k >= 0 && k / 64 < TF_TOTAL) {
			t_only = k % 64;
			unit_T((uint64_t)(k / 64));
		} else if (ex.cas[0] == 'U' && sscanf(ex.cas, "U %1399s", h1) == 1) {
			l1 = xe_unhex(h1, b1, sizeof(b1) - 1);
			b1[l1] = '\0';
			unit_U(str2idx(b1, l1, SU));
		} else if (ex.cas[0] == 'M' && sscanf(ex.cas, "M %d", &k) == 1 && k >= 0 && k <= 70) {
			int pat, sv, form;
			if (sscanf(ex.cas, "M %d %d %d %d", &k, &pat, &sv, &form) == 4) {
				/* the case is number (cases before it in the unit) + 1 */
				uint64_t before = 0;
				for (int p2 = 0; p2 < XD_NPAT; p2++) {
					for (int s2 = 0; s2 < (p2 >= 10 ? 1 : 2); s2++) {
						for (int f2 = 0; f2 < 2; f2++) {
							if (p2 < pat || (p2 == pat && (s2 < sv || (s2 == sv && f2 < form)))) {
								before++;
							}
						}
					}
				}
				{
					static struct xb_shared fake;
					xb = &fake;
					xb_skip_upto = before;
					xb_stop_unit = 0;
					xb_stop_sub = before + 2;
				}
			}
			unit_M((uint64_t)k);
		} else if (ex.cas[0] == 'R' && sscanf(ex.cas, "R %1399s", h1) == 1) {
			l1 = xe_unhex(h1, b1, sizeof(b1) - 1);
			b1[l1] = '\0';
			g_maxlen = lenR;
			unit_R(str2idx(b1, l1, SR));
		} else if (ex.cas[0] == 'X') {
			unsigned long long idx, sub;
			char md;
			if (sscanf(ex.cas, "X %c %llu %llu", &md, &idx, &sub) == 3) {
				g_maxlen = md == 'G' ? lenG : md == 'L' ? lenL : md == 'U' ? lenU : lenR;
				g_nenum = nstrings(g_maxlen);
				xb_skip_upto = sub - 1;
				run_unit(md, idx);
			}
		} else {
			return ex_replay_result(1, "bad case string '%s'", ex.cas);
		}
		return ex_replay_result(replay_fails, "%d violation(s)", replay_fails);
	}

	xb_init();
	ex_meta("rule", "byte strings in canonical order. G: string over {%% Y d b O _ t h s - a Z} (+%d calendar names, + every such string of length <= 2 (thorough 3) with 0x80, 0xc3, 0xff or UTF-8 e-acute inserted at every position 0..3) as format: calc_grep_atom, build_needle into 16 atoms, "
		"dt_io_find_strpdt2 over the formatter's own text for it (bare, embedded, every truncation) + %d fixed lines. L: string over {2 0 1 - : T W b SPC @ + 0x01} as line x %d "
		"format sets (none/standard needles, one per needle class, a 3-format set): dt_io_find_strpdt2 and dt_io_strpdt. U: string over {\\ a n t v x e z A %% 0x01 0x7f}: "
		"dt_io_unescape in place. M: duration lists of every length 0..%d over {1d 2b 1w 1mo 1y 3h 4m 5s 6rs} and the co-class forms {/1h /15m /30s /1d} (one unit throughout, "
		"units in rotation, co-class forms in rotation, both in rotation; all '+' or signs alternating) as one concatenated string and as one string per duration into one list: no memory "
		"report and the list equals the durations read one at a time (inside one string a '/' holds for the rest of the string, as the source says). T: two formats, one of digits only {%%Y%%m%%d %%H%%M%%S %%s %%Y%%j} and one with a separator {%%d/%%m/%%Y %%Y-%%m-%%d %%H:%%M:%%S, %%d %%b %%Y}, both orders, over 10 x 4 lines where the separator match is preceded by text the digits-only format tries. W: the argument reader dt_io_strpdt with every catch word (now today date tomo tomorrow yday yest yesterday time, three spellings of case) followed by 1..40 (thorough 80) bytes of 8 fillers (blanks, letters, digits, dates, tabs) under no format and two format sets: what is longer than the word and is read by no format is unknown. R: string over {1 0 - + = < / d m o s SPC}: the tools' loop around dt_io_strpdtdur. Every string in a block of exactly its size. "
		"Oracles: no ASan/bounds report, no fatal signal, returns within 1 s, match pointers inside the line and in order (0 <= start <= end <= length on every return), answers independent of the bytes behind the terminator (two fills), "
		"unescape terminates inside its block, the duration loop ends within 64 rounds. non-trivial = case with a report, a changed string (U) or more than one duration (R).",
		(int)NNAMED, NFIXED, NFSETS, XD_MAXN(ex.thorough));
	ex_meta("bound", "formats (G): length <= %d (%llu strings); lines (L): length <= %d (%llu); unescape strings: length <= %d; duration strings (R): length <= %d",
		lenG, (unsigned long long)nstrings(lenG), lenL, (unsigned long long)nstrings(lenL), lenU, lenR);
	{
		static const struct { char mode; int batch; } plan[] = {{'M', 1}, {'T', 4}, {'W', 1}, {'G', 512}, {'L', 512}, {'U', 8192}, {'R', 8192}};
		for (size_t k = 0; k < sizeof(plan) / sizeof(*plan) && !ex_expired(); k++) {
			uint64_t total;
			g_mode = plan[k].mode;
			g_maxlen = g_mode == 'G' ? lenG : g_mode == 'L' ? lenL : g_mode == 'U' ? lenU : lenR;
			g_nenum = nstrings(g_maxlen);
			total = g_mode == 'W' ? (uint64_t)NWORDS : g_mode == 'T' ? (uint64_t)TF_TOTAL : g_mode == 'M' ? (uint64_t)XD_MAXN(ex.thorough) + 1U : g_nenum + (g_mode == 'G' ? NNAMED + xh_count(ex.thorough ? 3 : 2) : 0);
			for (uint64_t lo = 0; lo < total && !ex.expired; lo += (uint64_t)plan[k].batch, slice++) {
				uint64_t hi = lo + (uint64_t)plan[k].batch < total ? lo + (uint64_t)plan[k].batch : total;
				if (!ex_mine(slice)) {
					continue;
				}
				xb_run(lo, hi, unit_cb, on_death);
				++*c_traces;
			}
		}
	}
	(void)c_states;
	(void)c_eval;
	(void)c_nontriv;
	return ex_finish();
}
