/* c02a_roundtrip.c -- C02(a): conversions round-trip, consecutive days map to consecutive values.
 *
 * Walks all states of the reference calendar.  In every state, for every ordered
 * pair (A, B) of calendars: conv_A(conv_B(x)) with x held in A prints the same
 * default text as x.  For the two calendars whose correctness C01 cannot judge from
 * the Gregorian model -- Hijri (the table is the definition) and bizda -- the value
 * of every day is also compared with a linear walk of the table / the model's
 * business-day count, and the successor relation between consecutive days is checked
 * in the calendar's own ordering. */
#include "explore.h"
#include "c02_common.h"

static void
txt(char *buf, size_t bsz, struct dt_dt_s v)
{
	memset(buf, 0, bsz);
	if (!dt_unk_p(v)) {
		dt_strfdt(buf, bsz, NULL, v);
	}
}

static int
do_pair(const struct rc_day *p, int A, int B, int replay)
{
	struct dt_dt_s va, w, back;
	char ta[64], tw[64], tb[64], key[96], cas[48], cmd[256];
	int ok;
	EX_CTR(c_eval, "evaluations");
	EX_CTR(c_trans, "transitions");

	if ((ok = held_value(A, p, &va)) <= 0) {
		if (ok == 0) {
			EX_CTR(c_skipa, "skipped:day has no name in the source calendar (weekend in bizda / outside the Hijri table)");
			++*c_skipa;
		}
		return 0;
	}
	if (B == H_BIZDA && !p->isbd) {
		EX_CTR(c_skipb, "skipped:weekend day has no bizda name");
		++*c_skipb;
		return 0;
	}
	if (B == H_HIJRI) {
		struct hj_s h;
		if (!hj_of_ldn(rc_ldn(p->rd), &h)) {
			EX_CTR(c_skiph, "skipped:day outside the Hijri table");
			++*c_skiph;
			return 0;
		}
	}
	{
		/* conversions may abort() (live assertions): an observation, not an accident */
		volatile int rc;
		ta[0] = tw[0] = tb[0] = '\0';
		EX_GUARD_BEGIN(rc);
		w = dt_dtconv((dt_dttyp_t)held_typ[B], va);
		txt(tw, sizeof(tw), w);
		back = dt_dtconv((dt_dttyp_t)held_typ[A], w);
		txt(ta, sizeof(ta), va);
		txt(tb, sizeof(tb), back);
		EX_GUARD_END;
		*c_eval += 2;
		++*c_trans;
		if (rc) {
			snprintf(key, sizeof(key), "roundtrip A=%s via=%s %s", held_name[A], held_name[B], rc == 1 ? "hangs" : "aborts/crashes");
			snprintf(cas, sizeof(cas), "rt %d %d %d", A, B, p->rd);
			ex_viol(key, p->rd, cas, NULL, "day %04d-%02d-%02d held as %s, converted to %s ('%s') and back: %s",
				p->y, p->m, p->d, held_name[A], held_name[B], tw, rc == 1 ? "no return within the watchdog period" : "fatal signal (assertion/abort)");
			if (replay) {
				printf("  day %04d-%02d-%02d as %s -> %s '%s' -> back: fatal signal\n", p->y, p->m, p->d, held_name[A], held_name[B], tw);
			}
			return 1;
		}
	}
	ex_outcome(ex_hash_mix(ex_hash(tw, strlen(tw)), (uint64_t)(A * 16 + B)));
	if (A == H_YMCW0 && ta[0] != '\0' && strcmp(ta, tb) != 0) {
		/* the way back spells the Sunday 07: the same date in the calendar's other spelling (Sunday is 0 or 7) */
		struct dt_dt_s v7;
		char t7[64] = "";
		if (held_value(H_YMCW, p, &v7) > 0) {
			txt(t7, sizeof(t7), v7);
		}
		if (t7[0] != '\0' && !strcmp(t7, tb)) {
			EX_CTR(c_spell, "accepted:a ymcw Sunday given as 00 comes back spelt 07");
			++*c_spell;
			return 0;
		}
	}
	if (strcmp(ta, tb) != 0 || ta[0] == '\0') {
		snprintf(key, sizeof(key), "roundtrip A=%s via=%s", held_name[A], held_name[B]);
		snprintf(cas, sizeof(cas), "rt %d %d %d", A, B, p->rd);
		snprintf(cmd, sizeof(cmd), "dconv %04d-%02d-%02d -f %s | dconv -i %s -f %s | dconv -i %s -f %s", p->y, p->m, p->d,
			 held_name[A], held_name[A], held_name[B], held_name[B], held_name[A]);
		ex_viol(key, p->rd, cas, cmd, "day %04d-%02d-%02d held as %s prints '%s'; converted to %s ('%s') and back it prints '%s'",
			p->y, p->m, p->d, held_name[A], ta, held_name[B], tw, tb);
		if (replay) {
			printf("  day %04d-%02d-%02d as %s '%s' -> %s '%s' -> back '%s'\n", p->y, p->m, p->d, held_name[A], ta, held_name[B], tw, tb);
		}
		return 1;
	}
	if (replay) {
		printf("  day %04d-%02d-%02d as %s '%s' -> %s '%s' -> back '%s' (agrees)\n", p->y, p->m, p->d, held_name[A], ta, held_name[B], tw, tb);
	}
	return 0;
}

/* Hijri: value by table walk, text -> day inverse, successor relation */
static int
do_hijri(const struct rc_day *p, int replay)
{
	struct hj_s h, h2;
	struct dt_dt_s v, v2, back;
	char exp[32], got[64], got2[64], bk[64], cas[48], cmd[128];
	int bad = 0;
	EX_CTR(c_eval, "evaluations");
	EX_CTR(c_trans, "transitions");
	EX_CTR(c_hj, "hijri_days");

	if (!hj_of_ldn(rc_ldn(p->rd), &h)) {
		return 0;
	}
	++*c_hj;
	snprintf(exp, sizeof(exp), "%04d-%02d-%02d", h.y, h.m, h.d);
	v = dt_dtconv((dt_dttyp_t)DT_UMMULQURA, ymd_value(p));
	txt(got, sizeof(got), v);
	++*c_eval;
	++*c_trans;
	snprintf(cas, sizeof(cas), "hj %d", p->rd);
	snprintf(cmd, sizeof(cmd), "dconv %04d-%02d-%02d -f hijri", p->y, p->m, p->d);
	if (strcmp(exp, got)) {
		ex_viol("hijri value", p->rd, cas, cmd, "day %04d-%02d-%02d: got '%s', the month-begin table says '%s'", p->y, p->m, p->d, got, exp);
		bad++;
	}
	if (h.mlen != 29 && h.mlen != 30) {
		ex_viol("hijri month length in table", p->rd, cas, NULL, "month %04d-%02d has %d days", h.y, h.m, h.mlen);
		bad++;
	}
	/* text -> value -> ymd */
	v2 = dt_strpdt(exp, "hijri", NULL);
	back = dt_dtconv((dt_dttyp_t)DT_YMD, v2);
	txt(bk, sizeof(bk), back);
	*c_eval += 2;
	snprintf(got2, sizeof(got2), "%04d-%02d-%02d", p->y, p->m, p->d);
	if (strcmp(bk, got2)) {
		snprintf(cmd, sizeof(cmd), "dconv -i hijri %s -f ymd", exp);
		ex_viol("hijri text to ymd", p->rd, cas, cmd, "hijri '%s' converts to '%s', table says %s", exp, bk, got2);
		bad++;
	}
	/* successor */
	if (p->rd + 1 < RC_NDAYS && hj_of_ldn(rc_ldn(p->rd + 1), &h2)) {
		struct dt_dt_s n = dt_dtconv((dt_dttyp_t)DT_UMMULQURA, ymd_value(rc_get(p->rd + 1)));
		int y2, m2, d2, y1, m1, d1, okk = 0;
		txt(got2, sizeof(got2), n);
		++*c_eval;
		if (sscanf(got, "%d-%d-%d", &y1, &m1, &d1) == 3 && sscanf(got2, "%d-%d-%d", &y2, &m2, &d2) == 3) {
			if (y2 == y1 && m2 == m1 && d2 == d1 + 1) {
				okk = 1;
			} else if (d2 == 1 && (d1 == 29 || d1 == 30) &&
				   ((y2 == y1 && m2 == m1 + 1) || (y2 == y1 + 1 && m2 == 1 && m1 == 12))) {
				okk = 1;
			}
		}
		if (!okk) {
			ex_viol("hijri successor", p->rd, cas, cmd, "consecutive days print '%s' then '%s'", got, got2);
			bad++;
		}
	}
	if (replay) {
		printf("  day %04d-%02d-%02d: hijri '%s' (table '%s'), back to ymd '%s'\n", p->y, p->m, p->d, got, exp, bk);
	}
	return bad;
}

/* bizda: text YYYY-MM-DDb denotes the DD-th Mon-Fri day of the month (both directions) */
static int
do_bizda(const struct rc_day *p, int replay)
{
	struct dt_dt_s v, y;
	char text[32], got[64], exp[32], cas[48], cmd[128];
	int bad = 0;
	EX_CTR(c_eval, "evaluations");
	EX_CTR(c_trans, "transitions");

	if (!p->isbd) {
		return 0;
	}
	snprintf(text, sizeof(text), "%04d-%02d-%02db", p->y, p->m, p->bd);
	snprintf(exp, sizeof(exp), "%04d-%02d-%02d", p->y, p->m, p->d);
	snprintf(cas, sizeof(cas), "bz %d", p->rd);
	v = dt_strpdt(text, NULL, NULL);
	y = dt_dtconv((dt_dttyp_t)DT_YMD, v);
	txt(got, sizeof(got), y);
	*c_eval += 2;
	++*c_trans;
	if (strcmp(got, exp)) {
		snprintf(cmd, sizeof(cmd), "dconv %s -f %%F", text);
		ex_viol("bizda text to ymd", p->rd, cas, cmd, "'%s' converts to '%s', the %d-th Mon-Fri day of the month is %s", text, got, p->bd, exp);
		bad++;
	}
	/* the other direction through the specifier (conversion to the bizda type is a stub, see roundtrip classes) */
	memset(got, 0, sizeof(got));
	dt_strfdt(got, sizeof(got), "%Y-%m-%db", ymd_value(p));
	++*c_eval;
	if (strcmp(got, text)) {
		snprintf(cmd, sizeof(cmd), "dconv %s -f '%%Y-%%m-%%db'", exp);
		ex_viol("ymd printed as %Y-%m-%db", p->rd, cas, cmd, "'%s' prints '%s', model says '%s'", exp, got, text);
		bad++;
	}
	if (replay) {
		printf("  '%s' -> '%s'; '%s' printed with %%Y-%%m-%%db -> '%s'\n", text, exp, exp, got);
	}
	return bad;
}

int
main(int argc, char *argv[])
{
	EX_CTR(c_states, "states");
	EX_CTR(c_traces, "traces");
	EX_CTR(c_nontriv, "nontrivial");

	ex_init(argc, argv);
	rc_selfcheck();
	ex_wd_init(1000);

	if (ex.cas) {
		int A, B, rd;
		if (sscanf(ex.cas, "rt %d %d %d", &A, &B, &rd) == 3 && A >= 0 && A < NHELD && B >= 0 && B < NHELD && rc_get(rd)) {
			return ex_replay_result(do_pair(rc_get(rd), A, B, 1), "roundtrip %s via %s rd=%d", held_name[A], held_name[B], rd);
		}
		if (sscanf(ex.cas, "hj %d", &rd) == 1 && rc_get(rd)) {
			return ex_replay_result(do_hijri(rc_get(rd), 1), "hijri rd=%d", rd);
		}
		if (sscanf(ex.cas, "bz %d", &rd) == 1 && rc_get(rd)) {
			return ex_replay_result(do_bizda(rc_get(rd), 1), "bizda rd=%d", rd);
		}
		return ex_replay_result(1, "bad case '%s'", ex.cas);
	}
	ex_meta("rule", "every day of the reference machine x every ordered pair (A,B) of {ymd ymcw ywd yd daisy ldn jdn mdn bizda hijri}: "
		"the value held in A, converted to B and back to A, prints the same default text; Hijri days additionally against a linear walk "
		"of data/ummulqura.tab (value, text->ymd inverse, successor d+1 | month+1 day 1 | year+1, month lengths 29/30); bizda text "
		"YYYY-MM-DDb against the model's Mon-Fri count in both directions. Skipped: weekend days have no bizda name, days outside the "
		"Hijri table have no Hijri name. non-trivial = month/year/ISO-year boundary days and Hijri month boundaries");
	ex_meta("bound", "%s", ex.thorough ? "all 911,280 days x 90 ordered pairs" : "days of 1601-2000 (one full Gregorian cycle) + 4090-4095 + the whole Hijri table range x 90 ordered pairs");

	for (int y = RC_MIN_YEAR; y <= RC_MAX_YEAR && !ex_expired(); y++) {
		struct hj_s h;
		if (!ex_mine((uint64_t)(y - RC_MIN_YEAR))) {
			continue;
		}
		if (!ex.thorough && !(y <= 2000 || y >= 4090 || hj_of_ldn(rc_ldn(rc_yearstart[y]), &h) || hj_of_ldn(rc_ldn(rc_yearstart[y + 1] - 1), &h))) {
			continue;
		}
		for (int rd = rc_yearstart[y]; rd < rc_yearstart[y + 1]; rd++) {
			const struct rc_day *p = rc_get(rd);
			++*c_states;
			if (p->d == 1 || p->d == p->mlen || p->isoy != p->y || (hj_of_ldn(rc_ldn(rd), &h) && (h.d == 1 || h.d == h.mlen))) {
				++*c_nontriv;
			}
			for (int A = 0; A < NHELD; A++) {
				for (int B = 0; B < NHELD; B++) {
					if (B == H_YMCW0) {
						/* as a target it is ymcw again */
						continue;
					}
					if (A != B) {
						do_pair(p, A, B, 0);
					}
				}
			}
			do_hijri(p, 0);
			do_bizda(p, 0);
			if (ex_want_sample()) {
				ex_sample("state %04d-%02d-%02d x 90 ordered calendar pairs (A -> B -> A) + Hijri/bizda model comparison", p->y, p->m, p->d);
			}
		}
		++*c_traces;
	}
	return ex_finish();
}
