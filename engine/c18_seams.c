/* c18_seams.c -- C18, stock-size seams through the real binaries.
 *
 * A deterministic list of inputs placed on the seams of the stock reader
 * constants (16384 lines per fill, 4096-byte reads, 16 MiB window), each fed to
 * the binaries of the same build through a pipe (a) in one piece and (b) in
 * pieces of 1 / 4095 / 4096 / 4097 bytes (c18_feed.h: a piece boundary is a
 * read() boundary), with and without a final newline; the output is compared
 * with the input (lines without date/times: byte for byte, a missing final
 * newline may be supplied; lines `2012-03-01 x...`: the date replaced by the
 * tool's argument-mode result).
 *
 * Families (ordered coordinate in brackets):
 *   lines   [N]      N lines "x": 16383 16384 16385 32768 32769
 *   dated   [N]      N lines "2012-03-01 x": 16383 16384 16385 32769
 *   llen    [L]      5 short lines around one line of L bytes: 1023 1024 1025 4095 4096 4097 65537
 *   total   [bytes]  lines of 2047 x + \n up to a total of 16 MiB-1, 16 MiB, 16 MiB+1
 *   exact   [bytes]  lines of 2048 bytes, the unterminated last one ends exactly at 16 MiB-4096 / 16 MiB
 *   fat     [bytes]  17000 lines of 1100 bytes (first 16384 lines exceed the window)
 *   long    [bytes]  one line of 16 MiB + 4097 bytes
 * Class key: family, tool, final newline, kind of failure (the piece size goes
 * into the case, not the key). */
#include "explore.h"
#include "c18_feed.h"

enum { F_LINES, F_DATED, F_LLEN, F_TOTAL, F_EXACT, F_FAT, F_LONG, NFAM };
static const char *const fam_name[NFAM] = {"lines", "dated", "llen", "total", "exact", "fat", "long"};
#define MIB16	(16L * 1024L * 1024L)

struct tool_s {
	const char *name;
	const char *argv[4];
	const char *date_out;	/* what 2012-03-01 becomes */
};
static const struct tool_s tools[3] = {
	{"dconv", {"dconv", "-S", NULL}, "2012-03-01"},
	{"dadd", {"dadd", "-S", "+1d", NULL}, "2012-03-02"},
	{"dround", {"dround", "-S", "Mon", NULL}, "2012-03-05"},
};
static const long pieces[5] = {0, 4096, 4095, 4097, 1};	/* 0 = one piece */

struct buf {
	char *d;
	size_t len, cap;
};

static void
b_put(struct buf *b, const char *p, size_t n)
{
	if (b->len + n + 1 > b->cap) {
		b->cap = (b->len + n + 1) * 2;
		b->d = realloc(b->d, b->cap);
	}
	memcpy(b->d + b->len, p, n);
	b->len += n;
}
static void
b_fill(struct buf *b, char c, size_t n)
{
	if (b->len + n + 1 > b->cap) {
		b->cap = (b->len + n + 1) * 2;
		b->d = realloc(b->d, b->cap);
	}
	memset(b->d + b->len, c, n);
	b->len += n;
}

/* build the input of (family, parameter, final newline); PL = perl expression */
static void
mk_input(struct buf *b, int fam, long par, int nl, char *pl, size_t plsz)
{
	b->len = 0;
	switch (fam) {
	case F_LINES:
		for (long i = 0; i < par; i++) {
			b_put(b, "x\n", 2);
		}
		snprintf(pl, plsz, "(\"x\\n\")x%ld", par);
		break;
	case F_DATED:
		for (long i = 0; i < par; i++) {
			b_put(b, "2012-03-01 x\n", 13);
		}
		snprintf(pl, plsz, "(\"2012-03-01 x\\n\")x%ld", par);
		break;
	case F_LLEN:
		b_put(b, "a\nb\n", 4);
		b_fill(b, 'x', (size_t)par);
		b_put(b, "\nc\nd\n", 5);
		snprintf(pl, plsz, "\"a\\nb\\n\", \"x\"x%ld, \"\\nc\\nd\\n\"", par);
		break;
	case F_TOTAL: {
		long n = par / 2048, rest = par % 2048;
		for (long i = 0; i < n; i++) {
			b_fill(b, 'x', 2047);
			b_put(b, "\n", 1);
		}
		if (rest) {
			b_fill(b, 'x', (size_t)rest - 1);
			b_put(b, "\n", 1);
		}
		snprintf(pl, plsz, "(\"x\"x2047 . \"\\n\")x%ld%s", n, rest ? ", \"x\"x(REST-1), \"\\n\"" : "");
		if (rest) {
			char tmp[64], *q = strstr(pl, "(REST-1)");
			snprintf(tmp, sizeof(tmp), "%ld", rest - 1);
			if (q) {
				memmove(q + strlen(tmp), q + 8, strlen(q + 8) + 1);
				memcpy(q, tmp, strlen(tmp));
			}
		}
		break;
	}
	case F_EXACT: {
		/* lines of 2048 bytes, the last one without its newline ends exactly at PAR bytes */
		long n = par / 2048 - 1;
		for (long i = 0; i < n; i++) {
			b_fill(b, 'x', 2047);
			b_put(b, "\n", 1);
		}
		b_fill(b, 'x', 2048);
		b_put(b, "\n", 1);
		snprintf(pl, plsz, "(\"x\"x2047 . \"\\n\")x%ld, \"x\"x2048, \"\\n\"", n);
		break;
	}
	case F_FAT:
		for (long i = 0; i < 17000; i++) {
			b_fill(b, 'y', 1099);
			b_put(b, "\n", 1);
		}
		snprintf(pl, plsz, "(\"y\"x1099 . \"\\n\")x17000");
		break;
	case F_LONG:
		b_fill(b, 'x', (size_t)par - 1);
		b_put(b, "\n", 1);
		snprintf(pl, plsz, "\"x\"x%ld, \"\\n\"", par - 1);
		break;
	}
	if (!nl && b->len && b->d[b->len - 1] == '\n') {
		b->len--;
		snprintf(pl + strlen(pl), plsz - strlen(pl), "   # without the final newline: | head -c -1");
	}
}

static uint64_t *c_states, *c_trans, *c_eval, *c_traces, *c_nontriv, *c_bind;

static int
do_seam(int fam, long par, int nl, int ti, int pi, int replay)
{
	static struct buf in, want;
	const struct tool_s *t = tools + ti;
	const char *rundir = getenv("VERIF_RUNDIR");
	char exe[1024], fout[512], pl[512], key[200], cas[96], cmd[1024];
	const char *argv[5];
	size_t *cuts = NULL;
	int ncuts = 0;
	struct feed_res fr;
	long at = -1, osz = 0;
	int differs;

	mk_input(&in, fam, par, nl, pl, sizeof(pl));
	if (pieces[pi] > 0) {
		long p = pieces[pi];
		ncuts = (int)((in.len - 1) / (size_t)p);
		cuts = malloc(sizeof(*cuts) * (size_t)(ncuts + 1));
		for (int i = 0; i < ncuts; i++) {
			cuts[i] = (size_t)(i + 1) * (size_t)p;
		}
	}
	snprintf(exe, sizeof(exe), "%s/src/%s", ex.tree, t->name);
	argv[0] = exe;
	for (int i = 1; i < 4; i++) {
		argv[i] = t->argv[i];
	}
	argv[4] = NULL;
	snprintf(fout, sizeof(fout), "%s/c18seam.%d.out", rundir ? rundir : "/tmp", (int)getpid());
	feed_run(argv, in.d, in.len, cuts, ncuts, fout, 120, &fr);
	free(cuts);
	++*c_eval;
	++*c_bind;
	++*c_traces;
	*c_states += (uint64_t)ncuts + 1U;
	*c_trans += (uint64_t)ncuts + 1U;
	if (pieces[pi] != 0 && pieces[pi] != 4096) {
		++*c_nontriv;
	}
	if (fam == F_DATED) {
		/* expected: the date replaced */
		FILE *f = fopen(fout, "r");
		size_t n;
		static char *got;
		want.len = 0;
		for (long i = 0; i < par; i++) {
			b_put(&want, t->date_out, 10);
			b_put(&want, " x\n", 3);
		}
		if (got == NULL) {
			got = malloc(1 << 20);
		}
		n = f ? fread(got, 1, (1 << 20) - 1, f) : 0;
		if (f) {
			fclose(f);
		}
		osz = (long)n;
		differs = n != want.len || memcmp(got, want.d, n);
		if (differs) {
			for (at = 0; (size_t)at < n && (size_t)at < want.len && got[at] == want.d[at]; at++) {
				;
			}
		}
	} else {
		differs = feed_cmp_passthrough(in.d, in.len, fout, &at, &osz);
	}
	unlink(fout);
	ex_outcome(ex_hash_mix((uint64_t)osz, ((uint64_t)fam << 40) ^ ((uint64_t)par << 8) ^ (uint64_t)(ti * 16 + pi * 2 + nl)));
	snprintf(cas, sizeof(cas), "%d %ld %d %d %d", fam, par, nl, ti, pi);
	snprintf(cmd, sizeof(cmd), "perl -e 'print(%s' | %s %s %s | cmp - <(perl -e 'print(%s')", pl, t->name, t->argv[1], t->argv[2] ? t->argv[2] : "", pl);
	/* the perl expression carries a shell comment when the newline is cut: rewrite plainly */
	if (!nl) {
		char pl2[512];
		snprintf(pl2, sizeof(pl2), "%s", pl);
		*strstr(pl2, "   #") = '\0';
		snprintf(cmd, sizeof(cmd), "perl -e 'print(%s)' | head -c -1 | %s %s %s | cmp - <(perl -e 'print(%s)')   # equal up to the final newline",
			 pl2, t->name, t->argv[1], t->argv[2] ? t->argv[2] : "", pl2);
	} else {
		snprintf(cmd, sizeof(cmd), "perl -e 'print(%s)' | %s %s %s | cmp - <(perl -e 'print(%s)')", pl, t->name, t->argv[1], t->argv[2] ? t->argv[2] : "", pl);
	}
	if (replay) {
		printf("  %s %ld (%zu bytes, %s final newline) through %s -S in pieces of %ld: %s, %ld bytes out%s\n", fam_name[fam], par, in.len, nl ? "with" : "without",
		       t->name, pieces[pi], feed_ending(&fr), osz, differs ? ", DIFFERS" : ", as expected");
	}
	if (fr.signaled || fr.timed_out || (fr.exited && fr.status >= 126)) {
		snprintf(key, sizeof(key), "seam %s tool=%s end=%s: %s", fam_name[fam], t->name, nl ? "nl" : "no-nl", fr.timed_out ? "no end" : "killed");
		ex_viol(key, (double)par, cas, cmd, "%s=%ld (%zu bytes, %s final newline), pieces of %ld bytes: %s -S %s after %ld bytes of output",
			fam_name[fam], par, in.len, nl ? "with" : "without", pieces[pi], t->name, feed_ending(&fr), osz);
		return 1;
	}
	if (differs) {
		long line = 1;
		for (long i = 0; i < at && (size_t)i < in.len; i++) {
			line += in.d[i] == '\n';
		}
		snprintf(key, sizeof(key), "seam %s tool=%s end=%s: output %s", fam_name[fam], t->name, nl ? "nl" : "no-nl",
			 osz == 0 ? "empty" : (size_t)osz < in.len ? "short" : "differs");
		ex_viol(key, (double)par, cas, cmd, "%s=%ld (%zu bytes, %s final newline), pieces of %ld bytes: %s -S (%s) printed %ld bytes, departs from the expected output at byte %ld (input line %ld)",
			fam_name[fam], par, in.len, nl ? "with" : "without", pieces[pi], t->name, feed_ending(&fr), osz, at, line);
		return 1;
	}
	return 0;
}

int
main(int argc, char *argv[])
{
	struct job {
		int fam;
		long par;
	};
	static const struct job jobs[] = {
		{F_LINES, 16383}, {F_LINES, 16384}, {F_LINES, 16385}, {F_LINES, 32768}, {F_LINES, 32769},
		{F_DATED, 16383}, {F_DATED, 16384}, {F_DATED, 16385}, {F_DATED, 32769},
		{F_LLEN, 1023}, {F_LLEN, 1024}, {F_LLEN, 1025}, {F_LLEN, 4095}, {F_LLEN, 4096}, {F_LLEN, 4097}, {F_LLEN, 65537},
		{F_TOTAL, MIB16 - 1}, {F_TOTAL, MIB16}, {F_TOTAL, MIB16 + 1},
		{F_EXACT, MIB16 - 4096}, {F_EXACT, MIB16},
		{F_FAT, 18700000},
		{F_LONG, MIB16 + 4097},
	};
	int njobs = (int)(sizeof(jobs) / sizeof(*jobs));

	c_states = ex_ctr("states");
	c_trans = ex_ctr("transitions");
	c_eval = ex_ctr("evaluations");
	c_traces = ex_ctr("traces");
	c_nontriv = ex_ctr("nontrivial");
	c_bind = ex_ctr("cli_binding_replays");
	ex_init(argc, argv);

	if (ex.cas) {
		int fam, nl, ti, pi;
		long par;
		if (sscanf(ex.cas, "%d %ld %d %d %d", &fam, &par, &nl, &ti, &pi) != 5 || fam < 0 || fam >= NFAM || ti < 0 || ti > 2 || pi < 0 || pi > 4) {
			return ex_replay_result(1, "bad case '%s'", ex.cas);
		}
		return ex_replay_result(do_seam(fam, par, nl, ti, pi, 1), "%s %ld", fam_name[fam], par);
	}
	ex_meta("rule", "stock binaries of the same build (dconv -S, dadd -S +1d, dround -S Mon), stdin through a pipe in one piece and in pieces of 4096/4095/4097/1 "
		"bytes (a piece boundary is a read() boundary; the writer waits for the pipe to drain), inputs on the seams of the stock constants: N lines around "
		"16384 and 32768 (plain and with a date per line), one line of L bytes around 1024/4096/65536, totals around 16 MiB, an unterminated last line ending exactly at 16 MiB, 17000 lines of 1100 bytes, one "
		"line longer than the window; each with and without the final newline; oracle: output = input (a missing final newline may be supplied), dated lines: "
		"the date replaced by the tool's result. states/transitions = pieces delivered; traces = runs compared; non-trivial = runs with piece sizes other than "
		"whole/4096. Pieces of 1 byte only for inputs below 70 kB; big inputs (>= 16 MiB) through dadd/dround only in one piece (thorough).");
	ex_meta("bound", "%s tier: %d seam inputs x {final newline, none} x tools x piece sizes as stated (quick: dconv all families, dadd/dround on lines/dated/llen in one piece and 4096)",
		ex.thorough ? "thorough" : "quick", njobs);
	ex_meta("binding", "real binaries of the same build through a pipe, compared with the input");
	{
		uint64_t id = 0;
		/* big jobs first so that they spread over the workers */
		for (int j = njobs - 1; j >= 0 && !ex_expired(); j--) {
			int big = jobs[j].fam >= F_TOTAL;
			for (int nl = 1; nl >= 0; nl--) {
				for (int ti = 0; ti < 3; ti++) {
					for (int pi = 0; pi < 5; pi++, id++) {
						if (!ex_mine(id)) {
							continue;
						}
						if (pieces[pi] == 1) {
							long est = jobs[j].fam == F_LINES ? 2 * jobs[j].par : jobs[j].fam == F_DATED ? 13 * jobs[j].par : jobs[j].par;
							if (big || est > 70000) {
								continue;
							}
						}
						if (ti > 0 && big && (pi > 0 || !ex.thorough)) {
							continue;
						}
						if (!ex.thorough) {
							/* quick: dconv: one piece, 4096, 4097 (+1 for small); others: one piece and 4096 on the small families */
							if (ti == 0 && pieces[pi] == 4095) {
								continue;
							}
							if (ti > 0 && pi > 1) {
								continue;
							}
							if (big && pi > 1 && jobs[j].fam != F_TOTAL) {
								continue;
							}
						}
						if (ex.deadline > 0 && ex_now() > ex.deadline) {
							ex.expired = 1;
							break;
						}
						do_seam(jobs[j].fam, jobs[j].par, nl, ti, pi, 0);
						ex_sample("%s=%ld %s final newline through %s -S in pieces of %ld bytes", fam_name[jobs[j].fam], jobs[j].par, nl ? "with" : "without",
							  tools[ti].name, pieces[pi]);
					}
				}
			}
		}
	}
	return ex_finish();
}
