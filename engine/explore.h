/* explore.h -- worker protocol shared by all explorers (single-header).
 *
 * An explorer enumerates a finite product in canonical order.  The driver
 * (./check) starts W worker processes of the same binary:
 *
 *    explorer --tier quick|thorough --worker I --nworkers W --deadline S
 *             --bitmap FILE [--case STRING]
 *
 * Each worker handles slices s with s % W == I, judges every case against
 * its oracle and finally prints JSON lines on stdout:
 *
 *    {"t":"ctr","k":NAME,"v":N}                counters (summed by driver)
 *    {"t":"meta","k":NAME,"v":STRING}          rule, bound, ... (worker 0)
 *    {"t":"sample","v":STRING}                 explored cases, verbatim
 *    {"t":"viol","key":..,"n":..,"ord":..,"lo":..,"hi":..,"case":..,"detail":..,"cmd":..}
 *    {"t":"done","complete":0|1,"last":STRING}
 *
 * Violations are aggregated per failure-class key: count, the smallest
 * example (by "ord"), and min/max of the ordered coordinate.
 * With --case the explorer re-executes exactly one case and prints
 * "REPLAY ok|fail <detail>"; exit 0 (holds) / 1 (fails).
 *
 * Nothing here is random; there is no sampling anywhere. */
#ifndef VERIF_EXPLORE_H
#define VERIF_EXPLORE_H
#include <stdio.h>
#include <stdlib.h>
#include <string.h>
#include <stdint.h>
#include <stdarg.h>
#include <signal.h>
#include <setjmp.h>
#include <time.h>
#include <unistd.h>
#include <errno.h>
#include <sys/time.h>

struct ex_viol_s {
	char *key;
	uint64_t n;
	double ord;
	double lo, hi;
	char *cas;
	char *detail;
	char *cmd;
};

#define EX_MAXCTR	64
#define EX_MAXVIOL	4096
#define EX_BITMAP_BITS	(1U << 22)

static struct {
	int thorough;
	int worker, nworkers;
	double deadline;	/* absolute, CLOCK_MONOTONIC seconds; 0 = none */
	const char *cas;	/* --case */
	const char *bitmap_file;
	const char *tree;	/* --tree: the scratch build (binaries for binding runs) */
	const char *ctr_name[EX_MAXCTR];
	uint64_t ctr_val[EX_MAXCTR];
	int nctr;
	struct ex_viol_s viol[EX_MAXVIOL];
	int nviol;
	uint64_t viol_overflow;
	uint8_t *bitmap;
	char *sample_first, *sample_mid, *sample_last;
	uint64_t nsample;
	int expired;
	char last[256];
	const char *meta_k[32];
	char *meta_v[32];
	int nmeta;
	const char *argv_extra[16];
} ex;

static inline double
ex_now(void)
{
	struct timespec ts;
	clock_gettime(CLOCK_MONOTONIC, &ts);
	return (double)ts.tv_sec + 1e-9 * (double)ts.tv_nsec;
}

static void
ex_init(int argc, char *argv[])
{
	ex.nworkers = 1;
	for (int i = 1; i < argc; i++) {
		if (!strcmp(argv[i], "--tier") && i + 1 < argc) {
			ex.thorough = !strcmp(argv[++i], "thorough");
		} else if (!strcmp(argv[i], "--worker") && i + 1 < argc) {
			ex.worker = atoi(argv[++i]);
		} else if (!strcmp(argv[i], "--nworkers") && i + 1 < argc) {
			ex.nworkers = atoi(argv[++i]);
		} else if (!strcmp(argv[i], "--deadline") && i + 1 < argc) {
			double d = atof(argv[++i]);
			ex.deadline = d > 0 ? ex_now() + d : 0;
		} else if (!strcmp(argv[i], "--case") && i + 1 < argc) {
			ex.cas = argv[++i];
		} else if (!strcmp(argv[i], "--bitmap") && i + 1 < argc) {
			ex.bitmap_file = argv[++i];
		} else if (!strcmp(argv[i], "--tree") && i + 1 < argc) {
			ex.tree = argv[++i];
		}
	}
	ex.bitmap = calloc(EX_BITMAP_BITS / 8, 1);
	setvbuf(stdout, NULL, _IOFBF, 1 << 16);
}

/* slice ownership */
static inline int
ex_mine(uint64_t slice)
{
	return (int)(slice % (uint64_t)ex.nworkers) == ex.worker;
}

/* deadline: cheap check */
static inline int
ex_expired(void)
{
	static unsigned int cnt;
	if (ex.expired) {
		return 1;
	}
	/* the first 64 calls always look (loops with few, long iterations), then every 64th */
	if ((++cnt <= 64U || (cnt & 0x3fU) == 0U) && ex.deadline > 0 && ex_now() > ex.deadline) {
		ex.expired = 1;
	}
	return ex.expired;
}

/* counters */
static uint64_t*
ex_ctr(const char *name)
{
	for (int i = 0; i < ex.nctr; i++) {
		if (!strcmp(ex.ctr_name[i], name)) {
			return ex.ctr_val + i;
		}
	}
	if (ex.nctr >= EX_MAXCTR) {
		fprintf(stderr, "explore.h: too many counters\n");
		exit(3);
	}
	ex.ctr_name[ex.nctr] = strdup(name);
	return ex.ctr_val + ex.nctr++;
}
#define EX_CTR(var, name)	static uint64_t *var; if (!var) var = ex_ctr(name)

static void
ex_meta(const char *k, const char *fmt, ...)
{
	char buf[4096];
	va_list ap;
	va_start(ap, fmt);
	vsnprintf(buf, sizeof(buf), fmt, ap);
	va_end(ap);
	for (int i = 0; i < ex.nmeta; i++) {
		if (!strcmp(ex.meta_k[i], k)) {
			free(ex.meta_v[i]);
			ex.meta_v[i] = strdup(buf);
			return;
		}
	}
	if (ex.nmeta < 32) {
		ex.meta_k[ex.nmeta] = strdup(k);
		ex.meta_v[ex.nmeta++] = strdup(buf);
	}
}

/* hashing of observable outcomes (vacuity guard) */
static inline uint64_t
ex_hash(const void *p, size_t n)
{
	const uint8_t *b = p;
	uint64_t h = 1469598103934665603ULL;
	for (size_t i = 0; i < n; i++) {
		h ^= b[i];
		h *= 1099511628211ULL;
	}
	return h;
}
static inline uint64_t
ex_hash_mix(uint64_t h, uint64_t v)
{
	h ^= v + 0x9e3779b97f4a7c15ULL + (h << 6) + (h >> 2);
	h *= 0xff51afd7ed558ccdULL;
	h ^= h >> 33;
	return h;
}
static inline void
ex_outcome(uint64_t h)
{
	h ^= h >> 29;
	h *= 0xbf58476d1ce4e5b9ULL;
	h ^= h >> 32;
	h &= EX_BITMAP_BITS - 1U;
	ex.bitmap[h >> 3] |= (uint8_t)(1U << (h & 7U));
}
static inline void
ex_outcome_str(const char *s)
{
	ex_outcome(ex_hash(s, strlen(s)));
}

/* samples: first, one from the middle (last power-of-two-th), last */
static void
ex_sample(const char *fmt, ...)
{
	char buf[1024];
	va_list ap;
	uint64_t k = ++ex.nsample;

	/* cheap pre-check: only format when we will keep it */
	va_start(ap, fmt);
	vsnprintf(buf, sizeof(buf), fmt, ap);
	va_end(ap);
	if (k == 1) {
		ex.sample_first = strdup(buf);
	}
	if ((k & (k - 1)) == 0) {
		free(ex.sample_mid);
		ex.sample_mid = strdup(buf);
	}
	free(ex.sample_last);
	ex.sample_last = strdup(buf);
	snprintf(ex.last, sizeof(ex.last), "%s", buf);
}
/* samples are formatted lazily by explorers: call ex_want_sample() first */
static inline int
ex_want_sample(void)
{
	static uint64_t k;
	k++;
	/* 1st, powers of two, and every 2^16th so that 'last' is recent */
	return k == 1 || (k & (k - 1)) == 0 || (k & 0xffffU) == 0;
}

/* violations */
static void
ex_viol(const char *key, double ord, const char *cas, const char *cmd,
	const char *fmt, ...)
{
	struct ex_viol_s *v = NULL;
	int i;

	for (i = 0; i < ex.nviol; i++) {
		if (!strcmp(ex.viol[i].key, key)) {
			v = ex.viol + i;
			break;
		}
	}
	if (v == NULL) {
		if (ex.nviol >= EX_MAXVIOL) {
			ex.viol_overflow++;
			return;
		}
		v = ex.viol + ex.nviol++;
		v->key = strdup(key);
		v->n = 0;
		v->lo = v->hi = v->ord = ord;
		v->cas = NULL;
	}
	v->n++;
	if (ord < v->lo) {
		v->lo = ord;
	}
	if (ord > v->hi) {
		v->hi = ord;
	}
	if (v->cas == NULL || ord < v->ord) {
		char buf[2048];
		va_list ap;
		va_start(ap, fmt);
		vsnprintf(buf, sizeof(buf), fmt, ap);
		va_end(ap);
		free(v->cas);
		free(v->detail);
		free(v->cmd);
		v->cas = strdup(cas ? cas : "");
		v->detail = strdup(buf);
		v->cmd = cmd ? strdup(cmd) : NULL;
		v->ord = ord;
	}
}

static void
ex_json_str(FILE *f, const char *s)
{
	fputc('"', f);
	for (const unsigned char *p = (const unsigned char*)(s ? s : ""); *p; p++) {
		switch (*p) {
		case '"': fputs("\\\"", f); break;
		case '\\': fputs("\\\\", f); break;
		case '\n': fputs("\\n", f); break;
		case '\r': fputs("\\r", f); break;
		case '\t': fputs("\\t", f); break;
		default:
			if (*p < 0x20 || *p >= 0x7f) {
				fprintf(f, "\\u%04x", *p);
			} else {
				fputc(*p, f);
			}
		}
	}
	fputc('"', f);
}

/* finish: print everything; returns the process exit code (always 0 for
 * workers: the driver decides, after matching against known findings) */
static int
ex_finish(void)
{
	FILE *f = stdout;
	for (int i = 0; i < ex.nctr; i++) {
		fprintf(f, "{\"t\":\"ctr\",\"k\":");
		ex_json_str(f, ex.ctr_name[i]);
		fprintf(f, ",\"v\":%llu}\n", (unsigned long long)ex.ctr_val[i]);
	}
	if (ex.worker == 0) {
		for (int i = 0; i < ex.nmeta; i++) {
			fprintf(f, "{\"t\":\"meta\",\"k\":");
			ex_json_str(f, ex.meta_k[i]);
			fprintf(f, ",\"v\":");
			ex_json_str(f, ex.meta_v[i]);
			fprintf(f, "}\n");
		}
	}
	const char *ss[3] = {ex.sample_first, ex.sample_mid, ex.sample_last};
	for (int i = 0; i < 3; i++) {
		if (ss[i]) {
			fprintf(f, "{\"t\":\"sample\",\"v\":");
			ex_json_str(f, ss[i]);
			fprintf(f, "}\n");
		}
	}
	for (int i = 0; i < ex.nviol; i++) {
		struct ex_viol_s *v = ex.viol + i;
		fprintf(f, "{\"t\":\"viol\",\"key\":");
		ex_json_str(f, v->key);
		fprintf(f, ",\"n\":%llu,\"ord\":%.17g,\"lo\":%.17g,\"hi\":%.17g,\"case\":",
			(unsigned long long)v->n, v->ord, v->lo, v->hi);
		ex_json_str(f, v->cas);
		fprintf(f, ",\"detail\":");
		ex_json_str(f, v->detail);
		if (v->cmd) {
			fprintf(f, ",\"cmd\":");
			ex_json_str(f, v->cmd);
		}
		fprintf(f, "}\n");
	}
	if (ex.viol_overflow) {
		fprintf(f, "{\"t\":\"viol\",\"key\":\"overflow of the violation table\",\"n\":%llu,"
			"\"ord\":0,\"lo\":0,\"hi\":0,\"case\":\"\",\"detail\":\"more than %d failure classes\"}\n",
			(unsigned long long)ex.viol_overflow, EX_MAXVIOL);
	}
	fprintf(f, "{\"t\":\"done\",\"complete\":%d,\"last\":", ex.expired ? 0 : 1);
	ex_json_str(f, ex.last);
	fprintf(f, "}\n");
	fflush(f);
	if (ex.bitmap_file) {
		FILE *b = fopen(ex.bitmap_file, "wb");
		if (b) {
			fwrite(ex.bitmap, 1, EX_BITMAP_BITS / 8, b);
			fclose(b);
		}
	}
	return 0;
}

/* replay helper */
static int
ex_replay_result(int fails, const char *fmt, ...)
{
	va_list ap;
	printf("REPLAY %s ", fails ? "fail" : "ok");
	va_start(ap, fmt);
	vprintf(fmt, ap);
	va_end(ap);
	printf("\n");
	fflush(stdout);
	return fails ? 1 : 0;
}


/* ---- watchdog: hangs and crashes are observations ----
 * EX_GUARD(rc) { ...case... } sets rc = 0 normally, 1 when the guarded code
 * made no progress for >= 1 timer period of CPU time (hang), 2 on a fatal signal. */
static sigjmp_buf ex_jb;
static volatile sig_atomic_t ex_armed;
static volatile uint64_t ex_progress;
static uint64_t ex_progress_seen;
static int ex_wd_period_ms = 1000;

static void
ex_wd_alarm(int sig)
{
	(void)sig;
	if (ex_armed) {
		if (ex_progress == ex_progress_seen) {
			ex_armed = 0;
			siglongjmp(ex_jb, 1);
		}
		ex_progress_seen = ex_progress;
	}
}
static void
ex_wd_fatal(int sig)
{
	if (ex_armed) {
		ex_armed = 0;
		siglongjmp(ex_jb, 2);
	}
	signal(sig, SIG_DFL);
	raise(sig);
}
static void
ex_wd_init(int period_ms)
{
	struct sigaction sa;
	struct itimerval it;

	ex_wd_period_ms = period_ms;
	memset(&sa, 0, sizeof(sa));
	sa.sa_handler = ex_wd_alarm;
	sa.sa_flags = SA_NODEFER;
	/* CPU time, not wall time: a busy machine must not look like a hang */
	sigaction(SIGVTALRM, &sa, NULL);
	sa.sa_handler = ex_wd_fatal;
	sa.sa_flags = SA_NODEFER;
	sigaction(SIGSEGV, &sa, NULL);
	sigaction(SIGBUS, &sa, NULL);
	sigaction(SIGFPE, &sa, NULL);
	sigaction(SIGABRT, &sa, NULL);
	it.it_interval.tv_sec = period_ms / 1000;
	it.it_interval.tv_usec = (period_ms % 1000) * 1000;
	it.it_value = it.it_interval;
	setitimer(ITIMER_VIRTUAL, &it, NULL);
}
/* usage:  int rc = sigsetjmp(ex_jb, 0); if (rc == 0) { ex_armed = 1; ...; ex_armed = 0; }
 * the macro form keeps it readable */
#define EX_GUARD_BEGIN(rc)	do { (rc) = sigsetjmp(ex_jb, 0); if ((rc) == 0) { ex_progress++; ex_armed = 1;
#define EX_GUARD_END		ex_armed = 0; } } while (0)

#endif	/* VERIF_EXPLORE_H */
