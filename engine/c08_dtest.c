/* c08_dtest.c -- C08 (tool level): dtest's exit status follows the timeline.
 *
 * Level M: dtest's main() runs in a forked child (forksrv.h) for every ordered
 * pair of a value set x every operator; the exit status must be the one the
 * help text of dtest documents for sign(instant(a) - instant(b)).
 * Level B: the dtest binary of the same build is run as a process on the same
 * pairs; its exit status must equal what level M observed.
 *
 * Only pairs of values of the same kind (same calendar text, both dates / both
 * date-times / both times / both epoch counts) are judged against the timeline;
 * mixed pairs are run once (--cmp) and only have to terminate with a status 0..3. */
#include "impl.h"
#include "explore.h"
#include "refcal.h"
#include "forksrv.h"

#define main dtest_main
#include "dtest.c"
#undef main

enum { K_YMD, K_YWD, K_YMCW, K_YD, K_BIZDA, K_YMD_DT, K_YWD_DT, K_YMCW_DT, K_TIME, K_EPOCH, K_LDN, K_JDN, K_MDN, K_EPOCHFMT, K_YMD_DTNS, NKIND };
static const char *const kind_name[NKIND] = {"ymd", "ywd", "ymcw", "yd", "bizda", "ymd-datetime", "ywd-datetime", "ymcw-datetime", "time", "epoch@",
	"ldn", "jdn", "mdn", "epoch%s", "ymd-datetime-ns"};
/* values of these kinds are read through an input format (dtest -i FMT A OP B) */
static const char *const kind_ifmt[NKIND] = {NULL, NULL, NULL, NULL, NULL, NULL, NULL, NULL, NULL, NULL, "ldn", "jdn", "mdn", "%s", "%FT%T.%N"};

struct val_s {
	char text[48];
	int kind;
	int64_t inst;	/* seconds; for times the second of the day */
	int ns;		/* nanoseconds (ymd-datetime-ns) */
	int mil;	/* text carries 24:00:00 */
	int di;		/* index of the seam day the value comes from (-1: a time) */
};
#define MAXVAL	2048
static struct val_s vals[MAXVAL];
static int nvals;

/* seam days */
static const int days[][3] = {
	/* quick: the first 12 */
	{2008, 12, 28}, {2008, 12, 29}, {2009, 1, 1}, {2010, 1, 3}, {2011, 1, 1}, {2012, 2, 28}, {2012, 2, 29}, {2012, 3, 1},
	{2012, 3, 30}, {2012, 3, 31}, {2012, 12, 31}, {2013, 1, 1},
	/* thorough adds */
	{1601, 1, 1}, {1601, 1, 2}, {1899, 12, 31}, {1900, 1, 1}, {1900, 2, 28}, {1900, 3, 1}, {1969, 12, 31}, {1970, 1, 1},
	{1999, 12, 31}, {2000, 1, 1}, {2000, 2, 29}, {2000, 3, 1}, {2010, 1, 4}, {2010, 12, 31}, {2011, 1, 2}, {2011, 1, 3},
	{2012, 4, 1}, {2012, 4, 2}, {2012, 4, 29}, {2012, 4, 30}, {2012, 12, 30}, {2038, 1, 19}, {2038, 1, 20}, {2099, 12, 31},
	{2100, 1, 1}, {2100, 3, 1}, {4095, 12, 30}, {4095, 12, 31},
};
#define NDAY_QUICK	12
#define NDAY		((int)(sizeof(days) / sizeof(*days)))
static const int tods[] = {0, 1, 3599, 3600, 43200, 86399, 86400};
#define NTODS		((int)(sizeof(tods) / sizeof(*tods)))

static int cur_di = -1;

static void
add_val(int kind, int64_t inst, int mil, const char *fmt, ...)
{
	va_list ap;
	if (nvals >= MAXVAL) {
		fprintf(stderr, "BROKEN-CHECK: value table too small\n");
		exit(3);
	}
	va_start(ap, fmt);
	vsnprintf(vals[nvals].text, sizeof(vals[nvals].text), fmt, ap);
	va_end(ap);
	vals[nvals].kind = kind;
	vals[nvals].inst = inst;
	vals[nvals].mil = mil;
	vals[nvals].di = cur_di;
	nvals++;
}

static void
mk_vals(int thorough)
{
	int nd = thorough ? NDAY : NDAY_QUICK;
	int ndt = thorough ? 12 : 5;	/* days that also appear as date-times */

	for (int i = 0; i < nd; i++) {
		int rd = rc_rd(days[i][0], days[i][1], days[i][2]);
		const struct rc_day *p = rc_get(rd);
		int64_t ins = (int64_t)p->unixd * 86400;
		cur_di = i;
		add_val(K_YMD, ins, 0, "%04d-%02d-%02d", p->y, p->m, p->d);
		add_val(K_YWD, ins, 0, "%04d-W%02d-%d", p->isoy, p->isow, p->wd);
		add_val(K_YMCW, ins, 0, "%04d-%02d-%02d-%02d", p->y, p->m, p->mcnt, p->wd);
		add_val(K_YD, ins, 0, "%04d-%03d", p->y, p->yday);
		if (p->isbd) {
			add_val(K_BIZDA, ins, 0, "%04d-%02d-%02db", p->y, p->m, p->bd);
		}
		add_val(K_LDN, ins, 0, "%lld", (long long)rc_ldn(p->rd));
		add_val(K_JDN, ins, 0, "%.1f", rc_jdn(p->rd));
		add_val(K_MDN, ins, 0, "%lld", (long long)rc_mdn(p->rd));
		if (i < ndt || (i >= NDAY_QUICK && i < NDAY_QUICK + 4)) {
			for (int t = 0; t < NTODS; t++) {
				int s = tods[t];
				int wide = t == 0 || t == 4 || t == 5 || t == 6;
				add_val(K_YMD_DT, ins + s, s == 86400, "%04d-%02d-%02dT%02d:%02d:%02d", p->y, p->m, p->d, s / 3600, s / 60 % 60, s % 60);
				if (wide) {
					add_val(K_YWD_DT, ins + s, s == 86400, "%04d-W%02d-%dT%02d:%02d:%02d", p->isoy, p->isow, p->wd, s / 3600, s / 60 % 60, s % 60);
					add_val(K_YMCW_DT, ins + s, s == 86400, "%04d-%02d-%02d-%02dT%02d:%02d:%02d", p->y, p->m, p->mcnt, p->wd, s / 3600, s / 60 % 60, s % 60);
					if (s != 86400) {
						add_val(K_EPOCH, ins + s, 0, "@%lld", (long long)(ins + s));
						if (ins + s > 0) {
							/* (a count of 0 or below as a command-line word is C09/C11's business) */
							add_val(K_EPOCHFMT, ins + s, 0, "%lld", (long long)(ins + s));
						}
					}
					if (t == 4) {
						static const int nss[3] = {100000000, 900000000, 1};
						for (int k = 0; k < 3; k++) {
							add_val(K_YMD_DTNS, ins + s, 0, "%04d-%02d-%02dT%02d:%02d:%02d.%09d", p->y, p->m, p->d,
								s / 3600, s / 60 % 60, s % 60, nss[k]);
							vals[nvals - 1].ns = nss[k];
						}
					}
				}
			}
		}
	}
	cur_di = -1;
	for (int t = 0; t < NTODS; t++) {
		int s = tods[t];
		if (s < 86400) {
			add_val(K_TIME, s, 0, "%02d:%02d:%02d", s / 3600, s / 60 % 60, s % 60);
		}
	}
	add_val(K_TIME, 43199, 0, "11:59:59");
	add_val(K_TIME, 82800, 0, "23:00:00");
}

static const char *const ops[] = {"--eq", "--ne", "--lt", "--le", "--gt", "--ge", "--ot", "--nt", "--cmp"};
#define NOPS	9
#define OP_CMP	8

/* the table in dtest's help text */
static int
want_status(int op, int e)
{
	switch (op) {
	case 0: return e == 0 ? 0 : 1;
	case 1: return e != 0 ? 0 : 1;
	case 2: case 6: return e < 0 ? 0 : 1;
	case 3: return e <= 0 ? 0 : 1;
	case 4: case 7: return e > 0 ? 0 : 1;
	case 5: return e >= 0 ? 0 : 1;
	case OP_CMP: return e == 0 ? 0 : e > 0 ? 1 : 2;
	}
	return -1;
}

/* run the binary; returns the exit status, or 1000 + signal, or -1 */
static int
run_binary(const char *ifmt, const char *a, const char *op, const char *b)
{
	char exe[512];
	pid_t pid;
	int st;

	snprintf(exe, sizeof(exe), "%s/src/dtest", ex.tree ? ex.tree : ".");
	fflush(stdout);
	if ((pid = fork()) < 0) {
		return -1;
	}
	if (pid == 0) {
		int n = open("/dev/null", O_RDWR);
		struct itimerval z = {{0, 0}, {0, 0}};
		setitimer(ITIMER_REAL, &z, NULL);
		signal(SIGALRM, SIG_DFL);
		dup2(n, 0), dup2(n, 1), dup2(n, 2);
		alarm(10);
		/* "--" is not used: the stock command line is `dtest A OP B' */
		if (ifmt) {
			execl(exe, "dtest", "-i", ifmt, a, op, b, (char*)NULL);
		} else {
			execl(exe, "dtest", a, op, b, (char*)NULL);
		}
		_exit(127);
	}
	while (waitpid(pid, &st, 0) < 0 && errno == EINTR) {
		;
	}
	if (WIFEXITED(st)) {
		return WEXITSTATUS(st);
	}
	if (WIFSIGNALED(st)) {
		return 1000 + WTERMSIG(st);
	}
	return -1;
}

static const char*
ord_name(int e)
{
	return e == -2 ? "incomparable" : e < 0 ? "older" : e > 0 ? "newer" : "same";
}

/* one ordered pair: all operators (same kind) or --cmp only (mixed kinds) */
static int
judge(int i, int j, int binding_all, int replay)
{
	const struct val_s *a = vals + i, *b = vals + j;
	int same = a->kind == b->kind;
	int e = a->inst != b->inst ? (a->inst > b->inst) - (a->inst < b->inst) : (a->ns > b->ns) - (a->ns < b->ns);
	int got[NOPS], bad = 0, c;
	char key[200], cas[64], cmd[200];
	EX_CTR(c_trans, "transitions");
	EX_CTR(c_eval, "evaluations");
	EX_CTR(c_bind, "cli_binding_replays");
	EX_CTR(c_nontriv, "nontrivial");
	EX_CTR(c_skip, "skipped:pair of values of different kinds (run once with --cmp; only has to terminate with status 0..3)");

	snprintf(cas, sizeof(cas), "%d %d %d", ex.thorough, i, j);
	for (int op = NOPS - 1; op >= 0; op--) {
		const char *av[6];
		int ac = 0;
		struct fs_opts o = {0};
		struct fs_result r;

		if (!same && op != OP_CMP) {
			continue;
		}
		av[ac++] = "dtest";
		if (same && kind_ifmt[a->kind]) {
			av[ac++] = "-i";
			av[ac++] = kind_ifmt[a->kind];
		}
		av[ac++] = a->text;
		av[ac++] = ops[op];
		av[ac++] = b->text;
		o.timeout_s = 5;
		o.now = 1330000000;	/* 2012-02-23: nothing here depends on it */
		fs_run(dtest_main, ac, av, &o, &r);
		++*c_eval;
		got[op] = r.exited ? r.status : r.signaled ? 1000 + r.sig : -1;
		ex_outcome(ex_hash_mix((uint64_t)got[op] * 16 + (uint64_t)op, ex_hash(a->text, strlen(a->text)) ^ (ex_hash(b->text, strlen(b->text)) << 1)));
		snprintf(cmd, sizeof(cmd), "dtest %s%s%s%s %s %s; echo $?", same && kind_ifmt[a->kind] ? "-i '" : "", same && kind_ifmt[a->kind] ? kind_ifmt[a->kind] : "",
			 same && kind_ifmt[a->kind] ? "' " : "", a->text, ops[op], b->text);
		if (replay) {
			printf("  %s: %s\n", cmd, fs_ending(&r));
		}
		if (!r.exited || r.status > 3) {
			snprintf(key, sizeof(key), "dtest kinds=%s/%s op=%s: %s", kind_name[a->kind], kind_name[b->kind], ops[op],
				 r.exited ? "status above 3" : "abnormal end");
			ex_viol(key, i * MAXVAL + j, cas, cmd, "dtest %s %s %s: %s", a->text, ops[op], b->text, fs_ending(&r));
			bad++;
		}
		fs_free(&r);
		if (same && (binding_all || op == OP_CMP)) {
			int bs = run_binary(kind_ifmt[a->kind], a->text, ops[op], b->text);
			++*c_bind;
			if (replay) {
				printf("    binary: status %d\n", bs);
			}
			if (bs != got[op]) {
				snprintf(key, sizeof(key), "binding dtest kind=%s op=%s", kind_name[a->kind], ops[op]);
				ex_viol(key, i * MAXVAL + j, cas, cmd, "dtest %s %s %s: the binary ends with status %d, main() in the harness with %d",
					a->text, ops[op], b->text, bs, got[op]);
				bad++;
			}
		}
	}
	if (!same) {
		++*c_skip;
		return bad;
	}
	if (bad) {
		return bad;
	}
#if !defined C08_JUDGE_MILITARY_MIDNIGHT
	if (a->mil || b->mil) {
		/* reading: see c08_cmp.c; only termination and the operator table are judged */
		EX_CTR(c_skipm, "skipped:pair with the text T24:00:00 (its place on the timeline is C11's statement, the repository's tests pin another one)");
		++*c_skipm;
		e = got[OP_CMP] == 0 ? 0 : got[OP_CMP] == 1 ? 1 : got[OP_CMP] == 2 ? -1 : -2;
	}
#endif
	/* what --cmp says about the pair, by the help text: 0 equal, 1 left newer, 2 right newer */
	c = got[OP_CMP] == 0 ? 0 : got[OP_CMP] == 1 ? 1 : got[OP_CMP] == 2 ? -1 : -2;
	*c_trans += NOPS;
	if (e != 0 && a->kind != K_TIME && a->kind != K_EPOCH && (strcmp(a->text, b->text) < 0) != (e < 0)) {
		/* non-trivial: the two texts are ordered differently as strings than as instants */
		++*c_nontriv;
	}
	/* (1) the other operators must be the documented functions of the same comparison */
	for (int op = 0; op < OP_CMP; op++) {
		int want = c == -2 ? 3 : want_status(op, c);
		if (got[op] != want) {
			snprintf(key, sizeof(key), "dtest operator table op=%s when --cmp says %s: status %d", ops[op], ord_name(c), got[op]);
			snprintf(cmd, sizeof(cmd), "dtest %s%s%s%s %s %s; echo $?", kind_ifmt[a->kind] ? "-i '" : "", kind_ifmt[a->kind] ? kind_ifmt[a->kind] : "",
				 kind_ifmt[a->kind] ? "' " : "", a->text, ops[op], b->text);
			ex_viol(key, i * MAXVAL + j, cas, cmd, "dtest %s %s %s ends with status %d although --cmp on the same pair ends with %d (%s), "
				"for which the documented status of %s is %d", a->text, ops[op], b->text, got[op], got[OP_CMP], ord_name(c), ops[op], want);
			if (replay) {
				printf("  %s: status %d does not fit --cmp's %d\n", ops[op], got[op], got[OP_CMP]);
			}
			bad++;
		}
	}
	/* (2) the comparison must be the timeline's */
	if (c != e) {
		snprintf(key, sizeof(key), "dtest kind=%s%s timeline=%s answers=%s", kind_name[a->kind], (a->mil || b->mil) ? " with-24:00:00" : "",
			 ord_name(e), ord_name(c));
		snprintf(cmd, sizeof(cmd), "dtest %s%s%s%s --cmp %s; echo $?", kind_ifmt[a->kind] ? "-i '" : "", kind_ifmt[a->kind] ? kind_ifmt[a->kind] : "",
			 kind_ifmt[a->kind] ? "' " : "", a->text, b->text);
		ex_viol(key, i * MAXVAL + j, cas, cmd, "dtest %s --cmp %s ends with status %d (first is %s), on the timeline the first is %s (status %d)",
			a->text, b->text, got[OP_CMP], ord_name(c), ord_name(e), want_status(OP_CMP, e));
		if (replay) {
			printf("  the first is %s on the timeline, dtest says %s\n", ord_name(e), ord_name(c));
		}
		bad++;
	}
	return bad;
}

int
main(int argc, char *argv[])
{
	EX_CTR(c_states, "states");
	EX_CTR(c_traces, "traces");
	int perkind[NKIND] = {0};
	char kinds[512] = "";

	ex_init(argc, argv);
	rc_selfcheck();

	if (ex.cas) {
		int th, i, j;
		if (sscanf(ex.cas, "%d %d %d", &th, &i, &j) != 3) {
			return ex_replay_result(1, "bad case string '%s'", ex.cas);
		}
		mk_vals(th);
		if (i < 0 || j < 0 || i >= nvals || j >= nvals) {
			return ex_replay_result(1, "bad case string '%s'", ex.cas);
		}
		return ex_replay_result(judge(i, j, 1, 1), "dtest %s OP %s", vals[i].text, vals[j].text);
	}
	mk_vals(ex.thorough);
	/* the calendar table is not needed any more and makes fork() dear */
	free(rc_tab);
	rc_tab = NULL;
	for (int i = 0; i < nvals; i++) {
		perkind[vals[i].kind]++;
	}
	for (int k = 0; k < NKIND; k++) {
		snprintf(kinds + strlen(kinds), sizeof(kinds) - strlen(kinds), "%s%s %d", k ? ", " : "", kind_name[k], perkind[k]);
	}
	ex_meta("rule", "dtest's main() in a forked child on every ordered pair of the value set; same-kind pairs x 9 operators "
		"(--eq --ne --lt --le --gt --ge --ot --nt --cmp), (a) --cmp's status must be the help text's code for sign(instant(a) - instant(b)) "
		"(instants from the reference calendar; pairs with the text T24:00:00: only (b) unless built with -DC08_JUDGE_MILITARY_MIDNIGHT), (b) every other operator's status "
		"must be the help text's function of the comparison --cmp reported; "
		"mixed-kind pairs once with --cmp, judged for normal termination with status 0..3 only. "
		"non-trivial = pair whose texts are ordered differently as strings than as instants");
	ex_meta("bound", "%d values (%s) from %d seam days; all %d ordered pairs", nvals, kinds, ex.thorough ? NDAY : NDAY_QUICK, nvals * nvals);
	ex_meta("binding", "the dtest binary of the same build as a process: %s; its exit status must equal the one main() gave in the harness",
		ex.thorough ? "every same-kind pair with --cmp, and with every operator when the two values come from the same or adjacent seam days of the list (or are times)" : "every same-kind pair with --cmp");

	for (int i = 0; i < nvals && !ex_expired(); i++) {
		if (!ex_mine((uint64_t)i)) {
			continue;
		}
		++*c_states;
		for (int j = 0; j < nvals; j++) {
			/* thorough: the binary runs all operators on pairs from the same or adjacent seam days (and on times) */
			judge(i, j, ex.thorough && abs(vals[i].di - vals[j].di) <= 1, 0);
		}
		++*c_traces;
		ex_sample("dtest %s OP each of %d values", vals[i].text, nvals);
	}
	return ex_finish();
}
