/* c11_seq.h -- C11, section SEQ: several durations applied to one value in one dadd
 * invocation (included by c11_tod.c, which provides prn(), INST_MIN/MAX, bdays[]).
 *
 * The 4-bit day carry t.carry of a time addition stays in the value; a later addition
 * must not see it again.  So sequences are explored, not single additions: every ordered
 * pair (thorough: also every triple) of an alphabet holding midnight-crossing steps of
 * both signs and exact multiples of a day (0 included), applied exactly as dadd applies
 * several duration arguments: one parser state, dt_io_strpdtdur per argument, dt_dtadd per
 * parsed duration on the running value (src/dadd.c: main, dadd_add).
 * Oracle: Unix seconds of the printed result = start + sum of the steps.
 * Zone variants: the value crosses midnight on its way from --from-zone to UTC, or the
 * result is printed with --zone; the zone's own offset is taken from the implementation's
 * single conversion (zone correctness is C12's business), the steps are judged. */
#ifndef VERIF_C11_SEQ_H
#define VERIF_C11_SEQ_H
#include "dt-io-zone.h"
#include <fcntl.h>

static const char *const seq_alpha[] = {
	"+1s", "-1s", "+2h", "-2h", "+90m", "-90m", "+24h", "-24h", "+48h", "-48h", "+1440m", "+86400s", "-86400s", "+0s", "+3600s", "+25h", "-25h",
	/* unsigned spellings: a sign given to an earlier argument must not carry over to them (pairs only) */
	"30m", "2s", "1h",
};
#define NSEQA	((int)(sizeof(seq_alpha) / sizeof(*seq_alpha)))
#define NSEQA3	17	/* the triples are built over the signed spellings */
#define SEQ_UNSIGNED_P(i)	((i) >= NSEQA3)
#define SEQ_24H	6	/* index of "+24h" */
static int64_t seq_secs[NSEQA];

struct seq_s {
	int n;
	int idx[3];
	struct dt_dtdur_s dur[3];
	int64_t sum;
	int ok;
};
static struct seq_s *seqs;
static int nseq2, nseq;	/* pairs come first, then triples */

static int64_t
seq_text_secs(const char *t)
{
	long long n = strtoll(t, NULL, 10);
	char u = t[strlen(t) - 1];
	return n * (u == 'h' ? 3600 : u == 'm' ? 60 : 1);
}

/* parse the arguments as dadd's main() does: one state for all of them */
static void
seq_parse(struct seq_s *q)
{
	struct __strpdtdur_st_s st = {0};
	q->ok = 1;
	q->sum = 0;
	for (int i = 0; i < q->n; i++) {
		do {
			if (dt_io_strpdtdur(&st, seq_alpha[q->idx[i]]) < 0) {
				q->ok = 0;
			}
		} while (__strpdtdur_more_p(&st));
		q->sum += seq_secs[q->idx[i]];
	}
	if (st.ndurs != (size_t)q->n) {
		q->ok = 0;
	} else {
		for (int i = 0; i < q->n; i++) {
			q->dur[i] = st.durs[i];
		}
	}
	__strpdtdur_free(&st);
}

static void
mk_seqs(int triples)
{
	int k = 0;
	for (int i = 0; i < NSEQA; i++) {
		seq_secs[i] = seq_text_secs(seq_alpha[i]);
	}
	nseq2 = NSEQA * NSEQA;
	nseq = nseq2 + (triples ? NSEQA3 * NSEQA3 * NSEQA3 : 0);
	seqs = calloc((size_t)nseq, sizeof(*seqs));
	for (int a = 0; a < NSEQA; a++) {
		for (int b = 0; b < NSEQA; b++, k++) {
			seqs[k].n = 2;
			seqs[k].idx[0] = a, seqs[k].idx[1] = b;
			seq_parse(seqs + k);
		}
	}
	for (int a = 0; triples && a < NSEQA3; a++) {
		for (int b = 0; b < NSEQA3; b++) {
			for (int c = 0; c < NSEQA3; c++, k++) {
				seqs[k].n = 3;
				seqs[k].idx[0] = a, seqs[k].idx[1] = b, seqs[k].idx[2] = c;
				seq_parse(seqs + k);
			}
		}
	}
}

static inline int64_t
seq_fdiv(int64_t a, int64_t b)
{
	int64_t q = a / b;
	return (a % b) < 0 ? q - 1 : q;
}

/* shape of a sequence from START: per step 'x' = crosses a midnight without being a multiple
 * of a day, 'd' = exact multiple of a day (0 included), 'n' = neither */
static void
seq_shape(const struct seq_s *q, int64_t start, char shape[4])
{
	int64_t cur = start;
	for (int i = 0; i < q->n; i++) {
		int64_t s = seq_secs[q->idx[i]];
		if (s % 86400 == 0) {
			shape[i] = 'd';
		} else if (seq_fdiv(cur + s, 86400) != seq_fdiv(cur, 86400)) {
			shape[i] = 'x';
		} else {
			shape[i] = 'n';
		}
		cur += s;
	}
	shape[q->n] = '\0';
}

static void
seq_key(char *key, size_t ksz, const char *what, const char *rep, const struct seq_s *q, const char shape[4], const char *why)
{
	if (q->n == 2) {
		snprintf(key, ksz, "seq %srep=%s first-crosses-midnight=%s second-multiple-of-day=%s (first=%c second=%c)%s: %s", what, rep,
			 shape[0] == 'x' ? "yes" : "no", shape[1] == 'd' ? "yes" : "no", shape[0], shape[1],
			 SEQ_UNSIGNED_P(q->idx[1]) ? (seq_secs[q->idx[0]] < 0 ? " second-unsigned-after-negative" : " second-unsigned") : "", why);
	} else {
		snprintf(key, ksz, "seq3 %srep=%s steps=%s: %s", what, rep, shape, why);
	}
}

static void
seq_args(char *buf, size_t bsz, const struct seq_s *q)
{
	buf[0] = '\0';
	for (int i = 0; i < q->n; i++) {
		snprintf(buf + strlen(buf), bsz - strlen(buf), "%s%s", i ? " " : "", seq_alpha[q->idx[i]]);
	}
}

/* one value, sequences [K0, K1) */
static int
judge_seq(int h, int rd, int sod, int k0, int k1, int replay)
{
	struct dt_dt_s v;
	char text[64], got[96], key[240], cas[96], cmd[320], args[64], shape[4];
	int64_t inst = (int64_t)rc_get(rd)->unixd * 86400 + sod, gi;
	int s60, bad = 0;
	EX_CTR(c_eval, "evaluations");
	EX_CTR(c_trans, "transitions");
	EX_CTR(c_traces, "traces");
	EX_CTR(c_nontriv, "nontrivial");
	EX_CTR(c_skipv, "skipped:the representation has no such value or it does not print as itself (parsing/printing is C09/C02's business)");
	EX_CTR(c_skipr, "skipped:result outside 1601-01-01..4095-12-31");

	++*c_eval;
	if (!held_value(h, rd, sod, &v, text, sizeof(text))) {
		*c_skipv += (uint64_t)(k1 - k0);
		return 0;
	}
	prn(got, sizeof(got), h, v);
	if (!dec_datetime(held_olayout[h], got, &gi, &s60) || gi != inst) {
		*c_skipv += (uint64_t)(k1 - k0);
		return 0;
	}
	for (int k = k0; k < k1; k++) {
		const struct seq_s *q = seqs + k;
		struct dt_dt_s r = v;
		int64_t want = inst + q->sum;
		const char *why = NULL;

		if (!q->ok) {
			seq_args(args, sizeof(args), q);
			snprintf(key, sizeof(key), "duration arguments '%s' are not accepted", args);
			ex_viol(key, 0, "", NULL, "dt_io_strpdtdur rejects '%s'", args);
			bad++;
			continue;
		}
		{
			/* every intermediate value must be in range too */
			int64_t cur = inst;
			int out = 0;
			for (int i = 0; i < q->n; i++) {
				cur += seq_secs[q->idx[i]];
				out |= cur < INST_MIN || cur > INST_MAX;
			}
			if (out) {
				++*c_skipr;
				continue;
			}
		}
		/* src/dadd.c: dadd_add */
		for (int i = 0; i < q->n; i++) {
			r = dt_dtadd(r, q->dur[i]);
		}
		prn(got, sizeof(got), h, r);
		*c_eval += (uint64_t)q->n + 1;
		*c_trans += (uint64_t)q->n;
		++*c_traces;
		seq_shape(q, inst, shape);
		if (strchr(shape, 'x') && strchr(shape, 'd')) {
			++*c_nontriv;
		}
		ex_outcome(ex_hash(got, strlen(got)));
		if (!dec_datetime(held_olayout[h], got, &gi, &s60)) {
			why = "result is not a date-time";
		} else if (gi != want || s60) {
			why = "wrong instant";
		}
		if (replay) {
			seq_args(args, sizeof(args), q);
			printf("  %s (%s-held) %s -> '%s'%s; Unix seconds %lld %+lld = %lld (step shape %s)\n", text, held_name[h], args, got,
			       why ? " WRONG" : "", (long long)inst, (long long)q->sum, (long long)want, shape);
		}
		if (why) {
			char opt[96] = "";
			seq_args(args, sizeof(args), q);
			seq_key(key, sizeof(key), "", held_name[h], q, shape, why);
			snprintf(cas, sizeof(cas), "SEQ %d %d %d %d %d %d %d", h, rd, sod, q->n, q->idx[0], q->idx[1], q->n > 2 ? q->idx[2] : 0);
			if (held_ifmt[h]) {
				snprintf(opt + strlen(opt), sizeof(opt) - strlen(opt), "-i '%s' ", held_ifmt[h]);
			}
			if (held_ofmt[h]) {
				snprintf(opt + strlen(opt), sizeof(opt) - strlen(opt), "-f '%s' ", held_ofmt[h]);
			}
			snprintf(cmd, sizeof(cmd), "dadd %s%s %s", opt, text, args);
			ex_viol(key, sod, cas, h == H_DAISY ? NULL : cmd, "%s (%s-held, Unix %lld) %s gives '%s'; the steps sum to %lld s, i.e. Unix %lld",
				text, held_name[h], (long long)inst, args, got, (long long)q->sum, (long long)want);
			bad++;
		}
	}
	return bad;
}

/* ---- zone variants ---- */
static const char *const seq_zones[] = {"Asia/Tokyo", "America/New_York", "Asia/Kolkata", "Pacific/Auckland", "America/Los_Angeles", "Europe/Berlin"};
#define NSEQZ_QUICK	3
#define NSEQZ		6
static const int seq_ztod[] = {0, 1, 3599, 3600, 43200, 79200, 82800, 86399};
#define NSEQZT	8
/* the civil day the zone texts are on: 2012-03-01 (no zone of the list changes its offset within three days of it) */
#define SEQZ_Y	2012
#define SEQZ_M	3
#define SEQZ_D	1

static zif_t
seq_zone(int zi)
{
	static zif_t z[NSEQZ];
	if (z[zi] == NULL) {
		z[zi] = dt_io_zone(seq_zones[zi]);
	}
	return z[zi];
}

/* the UTC value dadd holds for local TEXT read with --from-zone; its Unix seconds through the decoder */
static int
seqz_start(int zi, int ti, struct dt_dt_s *v, char *text, size_t tsz, int64_t *start)
{
	static struct dt_dt_s tmp;
	char got[96] = "";
	zif_t z = seq_zone(zi);
	int rc, s60;
	int sod = seq_ztod[ti];

	snprintf(text, tsz, "%04d-%02d-%02dT%02d:%02d:%02d", SEQZ_Y, SEQZ_M, SEQZ_D, sod / 3600, sod / 60 % 60, sod % 60);
	if (z == NULL) {
		return 0;
	}
	EX_GUARD_BEGIN(rc);
	tmp = dt_io_strpdt(text, NULL, 0U, z);
	dt_strfdt(got, sizeof(got), "%FT%T", tmp);
	EX_GUARD_END;
	if (rc || dt_unk_p(tmp) || !dec_datetime(H_YMD, got, start, &s60) || s60) {
		return 0;
	}
	*v = tmp;
	return 1;
}

/* library level: --from-zone value, then a pair of steps */
static int
judge_seqz(int zi, int ti, int k, int replay)
{
	const struct seq_s *q = seqs + k;
	struct dt_dt_s v, r;
	char text[64], got[96] = "", key[240], cas[64], cmd[320], args[64], shape[4], what[64];
	int64_t start, want, gi;
	int64_t local = ((int64_t)rc_get(rc_rd(SEQZ_Y, SEQZ_M, SEQZ_D))->unixd) * 86400 + seq_ztod[ti];
	int s60, zx;
	const char *why = NULL;
	EX_CTR(c_eval, "evaluations");
	EX_CTR(c_trans, "transitions");
	EX_CTR(c_traces, "traces");
	EX_CTR(c_nontriv, "nontrivial");
	EX_CTR(c_skipz, "skipped:zone file not available or the zone conversion of the start value does not return a date-time (C12/C19)");

	if (!q->ok || !seqz_start(zi, ti, &v, text, sizeof(text), &start)) {
		++*c_skipz;
		return 0;
	}
	zx = seq_fdiv(start, 86400) != seq_fdiv(local, 86400);
	want = start + q->sum;
	r = v;
	for (int i = 0; i < q->n; i++) {
		r = dt_dtadd(r, q->dur[i]);
	}
	/* dt_io_write without --zone */
	r.zdiff = 0U;
	r.neg = 0U;
	dt_strfdt(got, sizeof(got), NULL, r);
	*c_eval += (uint64_t)q->n + 2;
	*c_trans += (uint64_t)q->n;
	++*c_traces;
	seq_shape(q, start, shape);
	if (zx && strchr(shape, 'd')) {
		++*c_nontriv;
	}
	ex_outcome(ex_hash(got, strlen(got)));
	if (!dec_datetime(H_YMD, got, &gi, &s60)) {
		why = "result is not a date-time";
	} else if (gi != want || s60) {
		why = "wrong instant";
	}
	seq_args(args, sizeof(args), q);
	if (replay) {
		printf("  dadd --from-zone %s %s %s -> '%s'%s; UTC start Unix %lld %+lld = %lld\n", seq_zones[zi], text, args, got, why ? " WRONG" : "",
		       (long long)start, (long long)q->sum, (long long)want);
	}
	if (why) {
		snprintf(what, sizeof(what), "from-zone zone-shift-crosses-midnight=%s ", zx ? "yes" : "no");
		seq_key(key, sizeof(key), what, "ymd", q, shape, why);
		snprintf(cas, sizeof(cas), "SEQZ %d %d %d", zi, ti, k);
		snprintf(cmd, sizeof(cmd), "dadd --from-zone %s %s %s", seq_zones[zi], text, args);
		ex_viol(key, seq_ztod[ti], cas, cmd, "dadd --from-zone %s %s %s gives '%s'; the value is Unix %lld in UTC, the steps sum to %lld s, i.e. Unix %lld",
			seq_zones[zi], text, args, got, (long long)start, (long long)q->sum, (long long)want);
		return 1;
	}
	return 0;
}

/* the dadd binary; returns its first output line */
static int
seq_run_dadd(char *out, size_t osz, const char *zopt, const char *zone, const char *text, const struct seq_s *q)
{
	char exe[512];
	const char *av[10];
	int n = 0, pfd[2], st;
	pid_t pid;
	ssize_t nr;
	size_t tot = 0;

	snprintf(exe, sizeof(exe), "%s/src/dadd", ex.tree ? ex.tree : ".");
	av[n++] = "dadd";
	av[n++] = zopt;
	av[n++] = zone;
	av[n++] = text;
	for (int i = 0; i < q->n; i++) {
		av[n++] = seq_alpha[q->idx[i]];
	}
	av[n] = NULL;
	out[0] = '\0';
	if (pipe(pfd) < 0) {
		return -1;
	}
	fflush(stdout);
	if ((pid = fork()) < 0) {
		return -1;
	}
	if (pid == 0) {
		int nul = open("/dev/null", O_RDWR);
		struct itimerval z = {{0, 0}, {0, 0}};
		setitimer(ITIMER_REAL, &z, NULL);
		setitimer(ITIMER_VIRTUAL, &z, NULL);
		signal(SIGALRM, SIG_DFL);
		dup2(nul, 0), dup2(pfd[1], 1), dup2(nul, 2);
		close(pfd[0]), close(pfd[1]);
		alarm(10);
		execv(exe, (char *const*)av);
		_exit(127);
	}
	close(pfd[1]);
	while (tot + 1 < osz && ((nr = read(pfd[0], out + tot, osz - 1 - tot)) > 0 || (nr < 0 && errno == EINTR))) {
		if (nr > 0) {
			tot += (size_t)nr;
		}
	}
	close(pfd[0]);
	out[tot] = '\0';
	out[strcspn(out, "\n")] = '\0';
	while (waitpid(pid, &st, 0) < 0 && errno == EINTR) {
		;
	}
	return WIFEXITED(st) ? WEXITSTATUS(st) : 1000 + WTERMSIG(st);
}

/* binary level: MODE 0 `dadd --from-zone Z local steps' (UTC out), MODE 1 `dadd --zone Z utc steps' (zone out) */
static int
judge_seqb(int mode, int zi, int ti, int k, int replay)
{
	const struct seq_s *q = seqs + k;
	struct dt_dt_s v;
	char text[64], got[128], exp[96] = "", key[240], cas[64], cmd[320], args[64], shape[4], what[64];
	int64_t start, want, gi = 0;
	int s60 = 0, status, zx = 0, bad;
	zif_t z = seq_zone(zi);
	EX_CTR(c_bind, "cli_binding_replays");
	EX_CTR(c_trans, "transitions");
	EX_CTR(c_traces, "traces");
	EX_CTR(c_skipz, "skipped:zone file not available or the zone conversion of the start value does not return a date-time (C12/C19)");

	if (!q->ok || z == NULL) {
		++*c_skipz;
		return 0;
	}
	if (mode == 0) {
		int64_t local = ((int64_t)rc_get(rc_rd(SEQZ_Y, SEQZ_M, SEQZ_D))->unixd) * 86400 + seq_ztod[ti];
		if (!seqz_start(zi, ti, &v, text, sizeof(text), &start)) {
			++*c_skipz;
			return 0;
		}
		zx = seq_fdiv(start, 86400) != seq_fdiv(local, 86400);
		want = start + q->sum;
	} else {
		/* UTC in, zone out: the expected text is what a single conversion of the model's result prints */
		static struct dt_dt_s r;
		struct dt_dt_s w;
		char wt[64];
		int rc, sod = seq_ztod[ti];
		int rd = rc_rd(SEQZ_Y, SEQZ_M, SEQZ_D);
		start = (int64_t)rc_get(rd)->unixd * 86400 + sod;
		want = start + q->sum;
		held_text(H_YMD, rd, sod, text, sizeof(text));
		if (!held_value(H_YMD, (int)(seq_fdiv(want, 86400) + 134774), (int)(want - seq_fdiv(want, 86400) * 86400), &w, wt, sizeof(wt))) {
			++*c_skipz;
			return 0;
		}
		EX_GUARD_BEGIN(rc);
		r = dtz_enrichz(w, z);
		dt_strfdt(exp, sizeof(exp), NULL, r);
		EX_GUARD_END;
		if (rc || !exp[0]) {
			++*c_skipz;
			return 0;
		}
	}
	status = seq_run_dadd(got, sizeof(got), mode ? "--zone" : "--from-zone", seq_zones[zi], text, q);
	++*c_bind;
	*c_trans += (uint64_t)q->n;
	++*c_traces;
	seq_shape(q, start, shape);
	ex_outcome(ex_hash(got, strlen(got)));
	seq_args(args, sizeof(args), q);
	if (mode == 0) {
		bad = status != 0 || !dec_datetime(H_YMD, got, &gi, &s60) || s60 || gi != want;
	} else {
		bad = status != 0 || strcmp(got, exp) != 0;
	}
	if (replay) {
		printf("  dadd %s %s %s %s -> '%s' (status %d)%s; expected %s%lld%s%s\n", mode ? "--zone" : "--from-zone", seq_zones[zi], text, args, got,
		       status, bad ? " WRONG" : "", mode ? "'" : "Unix ", mode ? 0LL : (long long)want, mode ? exp : "", mode ? "'" : "");
	}
	if (bad) {
		if (mode == 0) {
			snprintf(what, sizeof(what), "binary from-zone zone-shift-crosses-midnight=%s ", zx ? "yes" : "no");
		} else {
			snprintf(what, sizeof(what), "binary zone-out ");
		}
		seq_key(key, sizeof(key), what, "ymd", q, shape, status ? "abnormal end" : "wrong instant");
		snprintf(cas, sizeof(cas), "SEQB %d %d %d %d", mode, zi, ti, k);
		snprintf(cmd, sizeof(cmd), "dadd %s %s %s %s", mode ? "--zone" : "--from-zone", seq_zones[zi], text, args);
		if (mode == 0) {
			ex_viol(key, seq_ztod[ti], cas, cmd, "%s prints '%s' (status %d); the value is Unix %lld in UTC, the steps sum to %lld s, i.e. Unix %lld",
				cmd, got, status, (long long)start, (long long)q->sum, (long long)want);
		} else {
			ex_viol(key, seq_ztod[ti], cas, cmd, "%s prints '%s' (status %d); Unix %lld %+lld converted to the zone in one step prints '%s'",
				cmd, got, status, (long long)start, (long long)q->sum, exp);
		}
	}
	return bad;
}

/* ---- ZEP: %s / @N under --zone and --from-zone ----
 * seconds since the epoch name an instant; they must not depend on the zone the civil
 * text is given or printed in */
static int
zep_run(char *out, size_t osz, const char *const av[])
{
	char exe[512];
	int pfd[2], st;
	pid_t pid;
	ssize_t nr;
	size_t tot = 0;

	snprintf(exe, sizeof(exe), "%s/src/%s", ex.tree ? ex.tree : ".", av[0]);
	out[0] = '\0';
	if (pipe(pfd) < 0) {
		return -1;
	}
	fflush(stdout);
	if ((pid = fork()) < 0) {
		return -1;
	}
	if (pid == 0) {
		int nul = open("/dev/null", O_RDWR);
		struct itimerval z = {{0, 0}, {0, 0}};
		setitimer(ITIMER_REAL, &z, NULL);
		signal(SIGALRM, SIG_DFL);
		dup2(nul, 0), dup2(pfd[1], 1), dup2(nul, 2);
		close(pfd[0]), close(pfd[1]);
		alarm(10);
		execv(exe, (char *const*)av);
		_exit(127);
	}
	close(pfd[1]);
	while (tot + 1 < osz && ((nr = read(pfd[0], out + tot, osz - 1 - tot)) > 0 || (nr < 0 && errno == EINTR))) {
		if (nr > 0) {
			tot += (size_t)nr;
		}
	}
	close(pfd[0]);
	out[tot] = '\0';
	out[strcspn(out, "\n")] = '\0';
	while (waitpid(pid, &st, 0) < 0 && errno == EINTR) {
		;
	}
	return WIFEXITED(st) ? WEXITSTATUS(st) : 1000 + WTERMSIG(st);
}

static int
judge_zep(int zi, int rd, int sod, int binary, int replay)
{
	static struct dt_dt_s r;
	struct dt_dt_s v;
	zif_t z = seq_zone(zi);
	int64_t inst = (int64_t)rc_get(rd)->unixd * 86400 + sod, gi;
	char text[64], num[32], atn[32], got[96] = "", key[200], cas[64], cmd[256];
	char *fmts[1] = {(char*)"%s"};
	int rc, s60, bad = 0;
	long long g;
	char *ep;
	EX_CTR(c_eval, "evaluations");
	EX_CTR(c_trans, "transitions");
	EX_CTR(c_bind, "cli_binding_replays");
	EX_CTR(c_skipz, "skipped:zone file not available or the zone conversion of the start value does not return a date-time (C12/C19)");

	if (z == NULL || !held_value(H_YMD, rd, sod, &v, text, sizeof(text))) {
		++*c_skipz;
		return 0;
	}
	snprintf(cas, sizeof(cas), "ZEP %d %d %d %d", zi, rd, sod, binary);
	snprintf(num, sizeof(num), "%lld", (long long)inst);
	snprintf(atn, sizeof(atn), "@%lld", (long long)inst);
	/* (a) civil UTC in, %s out under --zone */
	if (binary) {
		const char *av[] = {"dconv", "-f", "%s", "--zone", seq_zones[zi], text, NULL};
		rc = zep_run(got, sizeof(got), av);
		++*c_bind;
	} else {
		EX_GUARD_BEGIN(rc);
		r = dtz_enrichz(v, z);
		dt_strfdt(got, sizeof(got), "%s", r);
		EX_GUARD_END;
		*c_eval += 2;
	}
	++*c_trans;
	ex_outcome(ex_hash(got, strlen(got)));
	g = strtoll(got, &ep, 10);
	if (replay) {
		printf("  dconv -f %%s --zone %s %s -> '%s'; the instant is %lld\n", seq_zones[zi], text, got, (long long)inst);
	}
	{
		/* the zone slot of a value holds the offset in quarter hours (ZDIFF_RES); local mean
		 * times before a zone's first transition are no multiples of that: zone business (C12) */
		static struct dt_dt_s w;
		char loc[96] = "";
		int64_t li = 0;
		int ls = 0, rc2;
		EX_GUARD_BEGIN(rc2);
		w = dtz_enrichz(v, z);
		dt_strfdt(loc, sizeof(loc), "%FT%T", w);
		EX_GUARD_END;
		if (rc2 || !dec_datetime(H_YMD, loc, &li, &ls) || (li - inst) % 900) {
			EX_CTR(c_skipq, "skipped:zone offset at that instant is not a multiple of 15 minutes (local mean time; the value's zone slot cannot hold it)");
			++*c_skipq;
			return 0;
		}
	}
	if (rc || !got[0] || *ep || g != inst) {
		snprintf(key, sizeof(key), "%sepoch-out under --zone: %s", binary ? "binary " : "",
			 rc ? "abnormal end" : !got[0] || *ep ? "not a number" : g > inst ? "larger than the instant's" : "smaller than the instant's");
		snprintf(cmd, sizeof(cmd), "dconv -f %%s --zone %s %s", seq_zones[zi], text);
		ex_viol(key, (double)inst, cas, cmd, "dconv -f %%s --zone %s %s prints '%s'; the instant %sZ is %lld seconds after the epoch in every zone",
			seq_zones[zi], text, got, text, (long long)inst);
		bad++;
	}
	/* (b) %s in under --from-zone, %s out: the identity; (c) @N in under --from-zone: the instant of N.
	 * Reading: the repository pins the other meaning -- an epoch count read under --from-zone is the
	 * zone's wall clock counted in seconds (test/dtconv.055/056: `dconv -z Australia/Sydney
	 * --from-zone=Australia/Sydney @1408226870' prints 22:07:50, the UTC reading of that count) --
	 * so these two are judged only when built with -DC11_JUDGE_EPOCH_FROM_ZONE */
#if !defined C11_JUDGE_EPOCH_FROM_ZONE
	{
		EX_CTR(c_skipf, "skipped:epoch count read under --from-zone (the repository's tests pin it as local wall-clock seconds)");
		*c_skipf += 2;
		return bad;
	}
#endif
	for (int k = 0; k < 2; k++) {
		if (inst <= 0) {
			break;	/* counts of 0 and below as command-line words are C09's business (and 0 is rejected, see notes) */
		}
		got[0] = '\0';
		if (binary) {
			const char *av1[] = {"dconv", "-i", "%s", "--from-zone", seq_zones[zi], "-f", "%s", num, NULL};
			const char *av2[] = {"dconv", "--from-zone", seq_zones[zi], "-f", "%s", atn, NULL};
			rc = zep_run(got, sizeof(got), k ? av2 : av1);
			++*c_bind;
		} else {
			EX_GUARD_BEGIN(rc);
			r = dt_io_strpdt(k ? atn : num, fmts, k ? 0U : 1U, z);
			/* dt_io_write without --zone */
			r.zdiff = 0U;
			r.neg = 0U;
			dt_strfdt(got, sizeof(got), "%s", r);
			EX_GUARD_END;
			*c_eval += 2;
		}
		++*c_trans;
		ex_outcome(ex_hash(got, strlen(got)));
		g = strtoll(got, &ep, 10);
		if (replay) {
			printf("  dconv %s--from-zone %s -f %%s %s -> '%s'\n", k ? "" : "-i %s ", seq_zones[zi], k ? atn : num, got);
		}
		if (rc || !got[0] || *ep || g != inst) {
			snprintf(key, sizeof(key), "%sepoch-in src=%s under --from-zone, %%s out: %s", binary ? "binary " : "", k ? "@N" : "%s",
				 rc ? "abnormal end" : !got[0] || *ep ? "not a number" : g > inst ? "larger than the input" : "smaller than the input");
			snprintf(cmd, sizeof(cmd), "dconv %s--from-zone %s -f %%s %s", k ? "" : "-i %s ", seq_zones[zi], k ? atn : num);
			ex_viol(key, (double)inst, cas, cmd, "%s prints '%s'; seconds since the epoch name the same instant in every zone, expected %lld",
				cmd, got, (long long)inst);
			bad++;
		}
	}
	(void)gi;
	(void)s60;
	return bad;
}

/* ---- durations on stdin, date on the command line, --from-zone (dadd's mass_add_d) ----
 * `echo +24h | dadd --from-zone Z LOCAL -f %s' must print the instant of LOCAL in Z plus the duration;
 * the start instant is the implementation's own single conversion (dconv --from-zone Z LOCAL -f %s) */
static const struct {
	int zi;
	int y, m, d;
} sdz[] = {
	{5, 2012, 3, 24}, {5, 2012, 10, 27}, {5, 2012, 6, 15},		/* Europe/Berlin: before DST on, before DST off, mid-summer */
	{1, 2012, 3, 10}, {1, 2012, 11, 3}, {0, 2012, 3, 24},		/* America/New_York likewise; Asia/Tokyo (no DST) */
};
#define NSDZ	6

static int
judge_stdin_durs(int k, int replay)
{
	zif_t z = seq_zone(sdz[k].zi);
	static struct dt_dt_s v;
	char text[64], startbuf[64] = "", in[512] = "", out[1024] = "", exe[512], key[200], cas[32], cmd[320];
	int64_t start;
	int rc, bad = 0, pin[2], pout[2], st;
	size_t inlen = 0, tot = 0;
	ssize_t nr;
	pid_t pid;
	char *line;
	EX_CTR(c_bind, "cli_binding_replays");
	EX_CTR(c_trans, "transitions");
	EX_CTR(c_skipz, "skipped:zone file not available or the zone conversion of the start value does not return a date-time (C12/C19)");

	snprintf(text, sizeof(text), "%04d-%02d-%02dT12:00:00", sdz[k].y, sdz[k].m, sdz[k].d);
	if (z == NULL) {
		++*c_skipz;
		return 0;
	}
	EX_GUARD_BEGIN(rc);
	v = dt_io_strpdt(text, NULL, 0U, z);
	v.zdiff = 0U;
	v.neg = 0U;
	dt_strfdt(startbuf, sizeof(startbuf), "%s", v);
	EX_GUARD_END;
	if (rc || !startbuf[0]) {
		++*c_skipz;
		return 0;
	}
	start = strtoll(startbuf, NULL, 10);
	for (int i = 0; i < NSEQA; i++) {
		inlen += (size_t)snprintf(in + inlen, sizeof(in) - inlen, "%s\n", seq_alpha[i]);
	}
	snprintf(exe, sizeof(exe), "%s/src/dadd", ex.tree ? ex.tree : ".");
	snprintf(cmd, sizeof(cmd), "printf '+24h\\n...' | dadd --from-zone %s %s -f %%s", seq_zones[sdz[k].zi], text);
	if (pipe(pin) < 0 || pipe(pout) < 0) {
		return 0;
	}
	fflush(stdout);
	if ((pid = fork()) == 0) {
		int nul = open("/dev/null", O_RDWR);
		struct itimerval zt = {{0, 0}, {0, 0}};
		setitimer(ITIMER_REAL, &zt, NULL);
		signal(SIGALRM, SIG_DFL);
		dup2(pin[0], 0), dup2(pout[1], 1), dup2(nul, 2);
		close(pin[0]), close(pin[1]), close(pout[0]), close(pout[1]);
		alarm(10);
		execl(exe, "dadd", "--from-zone", seq_zones[sdz[k].zi], text, "-f", "%s", (char*)NULL);
		_exit(127);
	}
	close(pin[0]), close(pout[1]);
	if (write(pin[1], in, inlen) < 0) {
		;
	}
	close(pin[1]);
	while (tot + 1 < sizeof(out) && ((nr = read(pout[0], out + tot, sizeof(out) - 1 - tot)) > 0 || (nr < 0 && errno == EINTR))) {
		if (nr > 0) {
			tot += (size_t)nr;
		}
	}
	close(pout[0]);
	out[tot] = '\0';
	while (waitpid(pid, &st, 0) < 0 && errno == EINTR) {
		;
	}
	++*c_bind;
	line = out;
	for (int i = 0; i < NSEQA; i++) {
		char *nl = strchr(line, '\n');
		int64_t want = start + seq_secs[i];
		long long g;
		volatile int64_t o1 = 0, o2 = 0;
		int rc2;
		if (nl) {
			*nl = '\0';
		}
		g = *line ? strtoll(line, NULL, 10) : -1;
		++*c_trans;
		ex_outcome(ex_hash(line, strlen(line)));
		if (replay) {
			printf("  echo %s | dadd --from-zone %s %s -f %%s -> '%s'; start %lld %+lld = %lld\n", seq_alpha[i], seq_zones[sdz[k].zi], text, line,
			       (long long)start, (long long)seq_secs[i], (long long)want);
		}
		if (!*line || g != want) {
			/* does the zone's offset change between the start and the result? */
			EX_GUARD_BEGIN(rc2);
			o1 = zif_local_time(z, start) - start;
			o2 = zif_local_time(z, want) - want;
			EX_GUARD_END;
			snprintf(key, sizeof(key), "durations on stdin, date as argument, --from-zone: %s (zone offset %s between start and result)",
				 !*line ? "no output line" : "wrong instant", rc2 ? "unknown" : o1 != o2 ? "changes" : "the same");
			snprintf(cas, sizeof(cas), "SDZ %d", k);
			snprintf(cmd, sizeof(cmd), "echo %s | dadd --from-zone %s %s -f %%s", seq_alpha[i], seq_zones[sdz[k].zi], text);
			ex_viol(key, (double)llabs(seq_secs[i]), cas, cmd, "%s prints '%s'; %s in that zone is Unix %lld, %s later is %lld", cmd, line, text,
				(long long)start, seq_alpha[i], (long long)want);
			bad++;
		}
		line = nl ? nl + 1 : line + strlen(line);
	}
	return bad;
}

/* the dadd binary in argument mode: `dadd TEXT A B' where B is spelt without a sign */
static int
judge_seq_args(int ti, int k, int replay)
{
	const struct seq_s *q = seqs + k;
	char text[64], got[128] = "", key[240], cas[64], cmd[320], args[64], shape[4], exe[512];
	int rd = rc_rd(SEQZ_Y, SEQZ_M, SEQZ_D), sod = seq_ztod[ti], s60 = 0, st, pfd[2];
	int64_t start = (int64_t)rc_get(rd)->unixd * 86400 + sod, want = start + q->sum, gi = 0;
	pid_t pid;
	ssize_t nr;
	size_t tot = 0;
	EX_CTR(c_bind, "cli_binding_replays");
	EX_CTR(c_trans, "transitions");

	held_text(H_YMD, rd, sod, text, sizeof(text));
	snprintf(exe, sizeof(exe), "%s/src/dadd", ex.tree ? ex.tree : ".");
	if (pipe(pfd) < 0) {
		return 0;
	}
	fflush(stdout);
	if ((pid = fork()) == 0) {
		int nul = open("/dev/null", O_RDWR);
		struct itimerval z = {{0, 0}, {0, 0}};
		setitimer(ITIMER_REAL, &z, NULL);
		signal(SIGALRM, SIG_DFL);
		dup2(nul, 0), dup2(pfd[1], 1), dup2(nul, 2);
		close(pfd[0]), close(pfd[1]);
		alarm(10);
		execl(exe, "dadd", text, seq_alpha[q->idx[0]], seq_alpha[q->idx[1]], (char*)NULL);
		_exit(127);
	}
	close(pfd[1]);
	while (tot + 1 < sizeof(got) && ((nr = read(pfd[0], got + tot, sizeof(got) - 1 - tot)) > 0 || (nr < 0 && errno == EINTR))) {
		if (nr > 0) {
			tot += (size_t)nr;
		}
	}
	close(pfd[0]);
	got[tot] = '\0';
	got[strcspn(got, "\n")] = '\0';
	while (waitpid(pid, &st, 0) < 0 && errno == EINTR) {
		;
	}
	++*c_bind;
	*c_trans += 2;
	seq_shape(q, start, shape);
	seq_args(args, sizeof(args), q);
	ex_outcome(ex_hash(got, strlen(got)));
	if (replay) {
		printf("  dadd %s %s -> '%s'; Unix %lld %+lld = %lld\n", text, args, got, (long long)start, (long long)q->sum, (long long)want);
	}
	if (!dec_datetime(H_YMD, got, &gi, &s60) || s60 || gi != want) {
		seq_key(key, sizeof(key), "binary arguments ", "ymd", q, shape, "wrong instant");
		snprintf(cas, sizeof(cas), "SEQA %d %d", ti, k);
		snprintf(cmd, sizeof(cmd), "dadd %s %s", text, args);
		ex_viol(key, sod, cas, cmd, "%s prints '%s'; the steps sum to %lld s, i.e. Unix %lld", cmd, got, (long long)q->sum, (long long)want);
		return 1;
	}
	return 0;
}

/* negative epoch counts inside stdin lines for -i %s: at the start of the line, behind a blank, behind a tab */
static int
judge_stdin_negepoch(int replay)
{
	static const long long vals[] = {-1, -86400, -86401, -1330560000LL, -11644473600LL, 86401};
	static const char *const pre[3] = {"", "id ", "id\t"};
	static const char *const prename[3] = {"line-start", "blank", "tab"};
	const char *rundir = getenv("VERIF_RUNDIR");
	char fin[600], cmd[1400], line[128], key[200], c2[200];
	FILE *f, *pp;
	int bad = 0, n = 0;
	EX_CTR(c_bind, "cli_binding_replays");
	EX_CTR(c_trans, "transitions");

	snprintf(fin, sizeof(fin), "%s/c11negep.%d.in", rundir ? rundir : "/tmp", (int)getpid());
	if ((f = fopen(fin, "w")) == NULL) {
		return 0;
	}
	for (int p = 0; p < 3; p++) {
		for (int i = 0; i < 6; i++) {
			fprintf(f, "%s%lld\n", pre[p], vals[i]);
		}
	}
	fclose(f);
	snprintf(cmd, sizeof(cmd), "'%s/src/dconv' -i %%s < '%s' 2>/dev/null", ex.tree ? ex.tree : ".", fin);
	++*c_bind;
	if ((pp = popen(cmd, "r")) == NULL) {
		unlink(fin);
		return 0;
	}
	for (int p = 0; p < 3; p++) {
		for (int i = 0; i < 6; i++, n++) {
			char num[32], exp[64] = "";
			struct dt_dt_s v;
			line[0] = '\0';
			if (fgets(line, sizeof(line), pp)) {
				line[strcspn(line, "\n")] = '\0';
			}
			snprintf(num, sizeof(num), "%lld", vals[i]);
			v = dt_strpdt(num, "%s", NULL);
			if (!dt_unk_p(v)) {
				dt_strfdt(exp, sizeof(exp), NULL, v);
			}
			++*c_trans;
			ex_outcome(ex_hash(line, strlen(line)));
			if (replay) {
				printf("  '%s%lld' | dconv -i %%s -> '%s', as an argument '%s'\n", p == 2 ? "id<TAB>" : pre[p], vals[i], line, exp);
			}
			if (strcmp(line, exp)) {
				snprintf(key, sizeof(key), "stdin line with an epoch count, -i %%s, count %s behind %s: differs from the argument",
					 vals[i] < 0 ? "negative" : "positive", prename[p]);
				snprintf(c2, sizeof(c2), "printf '%s%lld\\n' | dconv -i %%s", p == 2 ? "id\\t" : pre[p], vals[i]);
				ex_viol(key, (double)(p * 6 + i), "NEGEP", c2, "%s prints '%s'; `dconv -i %%s -- %lld' gives '%s'", c2, line, vals[i], exp);
				bad++;
			}
		}
	}
	pclose(pp);
	unlink(fin);
	return bad;
}

#endif
