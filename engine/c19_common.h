/* c19_common.h -- fault enumeration under AddressSanitizer: batches of cases in forked children.
 *
 * A case that makes the code read or write outside its data must not take the
 * worker down, and must not be allowed to go on (one bad header count makes a
 * loop report a million times; leaving ASan's report callback by longjmp leaves its
 * lock held).  So the cases of a batch run in a forked child; the child publishes the
 * index of the case in flight in shared memory; on the first ASan report of a case the
 * report callback stores a summary and _exit()s; a fatal signal (incl. the trap of
 * -fsanitize=bounds) ends the child as well.  The parent records the outcome for exactly
 * that case and starts a new child behind it.  Functional findings of the child
 * (oracle mismatches) and its counters travel through the same shared memory. */
#ifndef VERIF_C19_COMMON_H
#define VERIF_C19_COMMON_H
#include <stdio.h>
#include <stdlib.h>
#include <string.h>
#include <stdint.h>
#include <unistd.h>
#include <signal.h>
#include <sys/mman.h>
#include <sys/wait.h>
#include "explore.h"
#include "c12_wd.h"

extern void __asan_set_error_report_callback(void (*cb)(const char*)) __attribute__((weak));

/* quiet reports: the text is taken from the callback, not from a log.
 * Allocations beyond 512 MiB fail (the driver sets allocator_may_return_null): whether a
 * 17 GiB request of a corrupted count succeeds must not depend on the machine's memory. */
const char*
__asan_default_options(void)
{
	return "log_path=/dev/null:max_allocation_size_mb=512";
}

#define C19_NCTR	24
#define C19_NVIOL	96

struct c19_viol {
	char key[224];
	double ord, lo, hi;
	uint64_t n;
	char cas[320];
	char detail[640];
};

struct c19_shm {
	volatile long cur;
	volatile int phase;
	volatile int asan;
	char report[256];
	uint64_t ctr[C19_NCTR];
	int nviol;
	uint64_t viol_overflow;
	struct c19_viol viol[C19_NVIOL];
};

static struct c19_shm *c19;
static const char *c19_ctr_name[C19_NCTR];

static void
c19_init(void)
{
	void *bm;
	c19 = mmap(NULL, sizeof(*c19), PROT_READ | PROT_WRITE, MAP_SHARED | MAP_ANONYMOUS, -1, 0);
	bm = mmap(NULL, EX_BITMAP_BITS / 8, PROT_READ | PROT_WRITE, MAP_SHARED | MAP_ANONYMOUS, -1, 0);
	if (c19 == MAP_FAILED || bm == MAP_FAILED) {
		perror("c19_init");
		exit(3);
	}
	/* the outcome bitmap is written by the children */
	free(ex.bitmap);
	ex.bitmap = bm;
}

/* counters living in shared memory; folded into explore.h's at the end */
static int
c19_ctr_id(const char *name)
{
	for (int i = 0; i < C19_NCTR; i++) {
		if (c19_ctr_name[i] == NULL) {
			c19_ctr_name[i] = name;
			return i;
		}
		if (!strcmp(c19_ctr_name[i], name)) {
			return i;
		}
	}
	fprintf(stderr, "c19: too many counters\n");
	exit(3);
}
#define C19_CTR(var, name)	static int var = -1; if (var < 0) var = c19_ctr_id(name)
#define C19_INC(var)		(c19->ctr[var]++)

static void
c19_fold_counters(void)
{
	for (int i = 0; i < C19_NCTR && c19_ctr_name[i]; i++) {
		*ex_ctr(c19_ctr_name[i]) += c19->ctr[i];
		c19->ctr[i] = 0;
	}
}

/* child side: a functional finding */
static void
c19_viol(const char *key, double ord, const char *cas, const char *fmt, ...)
{
	struct c19_viol *v = NULL;
	va_list ap;

	for (int i = 0; i < c19->nviol; i++) {
		if (!strcmp(c19->viol[i].key, key)) {
			v = c19->viol + i;
			break;
		}
	}
	if (v == NULL) {
		if (c19->nviol >= C19_NVIOL) {
			c19->viol_overflow++;
			return;
		}
		v = c19->viol + c19->nviol++;
		memset(v, 0, sizeof(*v));
		snprintf(v->key, sizeof(v->key), "%s", key);
		v->ord = v->lo = v->hi = ord;
	}
	v->n++;
	if (ord < v->lo) {
		v->lo = ord;
	}
	if (ord > v->hi) {
		v->hi = ord;
	}
	if (v->n == 1 || ord < v->ord) {
		v->ord = ord;
		snprintf(v->cas, sizeof(v->cas), "%s", cas);
		va_start(ap, fmt);
		vsnprintf(v->detail, sizeof(v->detail), fmt, ap);
		va_end(ap);
	}
}

/* parent side: move the child's findings into explore.h's table */
static void
c19_merge_viols(void)
{
	for (int i = 0; i < c19->nviol; i++) {
		struct c19_viol *v = c19->viol + i;
		ex_viol(v->key, v->ord, v->cas, NULL, "%s", v->detail);
		for (int k = 0; k < ex.nviol; k++) {
			if (!strcmp(ex.viol[k].key, v->key)) {
				ex.viol[k].n += v->n - 1;
				if (v->lo < ex.viol[k].lo) {
					ex.viol[k].lo = v->lo;
				}
				if (v->hi > ex.viol[k].hi) {
					ex.viol[k].hi = v->hi;
				}
				break;
			}
		}
	}
	if (c19->viol_overflow) {
		ex_viol("c19: more finding classes in one batch than the buffer holds", 0, "", NULL, "%llu dropped", (unsigned long long)c19->viol_overflow);
	}
	c19->nviol = 0;
	c19->viol_overflow = 0;
}

/* "ERROR: AddressSanitizer: heap-buffer-overflow on address ... \nREAD of size 4 at ..." -> "heap-buffer-overflow READ 4" */
static void
c19_summarise(const char *text, char *buf, size_t bsz)
{
	const char *p = strstr(text, "AddressSanitizer: ");
	char kind[64] = "report", acc[16] = "", *q;
	int size = 0;

	if (p) {
		snprintf(kind, sizeof(kind), "%.60s", p + 18);
		if ((q = strpbrk(kind, " \n")) != NULL) {
			*q = '\0';
		}
	}
	if ((p = strstr(text, "READ of size ")) != NULL) {
		strcpy(acc, "READ");
		size = atoi(p + 13);
	} else if ((p = strstr(text, "WRITE of size ")) != NULL) {
		strcpy(acc, "WRITE");
		size = atoi(p + 14);
	}
	(void)size;
	if (*acc) {
		/* the size of the access depends on the file, the kind of access does not */
		snprintf(buf, bsz, "%s %s", kind, acc);
	} else {
		snprintf(buf, bsz, "%s", kind);
	}
}

static void
c19_asan_cb(const char *text)
{
	c19_summarise(text, c19->report, sizeof(c19->report));
	c19->asan = 1;
	_exit(77);
}

enum { C19_ASAN = 1, C19_SIGNAL = 2, C19_TIMEOUT = 3, C19_EXIT = 4 };

/* run cases [0,N) through ONE(i); CRASHED(i, how, sig, report) is called in the parent
 * for every case that ended its child */
static void
c19_batch(long n, void (*one)(long), void (*crashed)(long, int, int, const char*))
{
	long start = 0, retried = -1;
	int retries = 0;
	EX_CTR(c_forks, "children_forked");
	EX_CTR(c_retry, "children_restarted_after_an_unexplained_exit");
	EX_CTR(c_died, "cases_that_ended_their_child");

	while (start < n) {
		pid_t pid;
		int st = 0;

		c19->cur = start;
		c19->asan = 0;
		c19->report[0] = '\0';
		fflush(stdout);
		fflush(stderr);
		++*c_forks;
		if ((pid = fork()) < 0) {
			perror("fork");
			exit(3);
		}
		if (pid == 0) {
			/* timers do not survive fork(); fatal signals shall kill us */
			signal(SIGSEGV, SIG_DFL);
			signal(SIGBUS, SIG_DFL);
			signal(SIGFPE, SIG_DFL);
			signal(SIGABRT, SIG_DFL);
			signal(SIGILL, SIG_DFL);
			zc_wd_init();
			signal(SIGSEGV, SIG_DFL);
			signal(SIGBUS, SIG_DFL);
			signal(SIGFPE, SIG_DFL);
			signal(SIGABRT, SIG_DFL);
			if (__asan_set_error_report_callback) {
				__asan_set_error_report_callback(c19_asan_cb);
			}
			for (long i = start; i < n; i++) {
				c19->cur = i;
				one(i);
			}
			_exit(0);
		}
		while (waitpid(pid, &st, 0) < 0 && errno == EINTR) {
			;
		}
		c19_merge_viols();
		if (WIFEXITED(st) && WEXITSTATUS(st) == 0) {
			break;
		}
		++*c_died;
		if (WIFEXITED(st) && WEXITSTATUS(st) == 77 && c19->asan) {
			crashed(c19->cur, C19_ASAN, 0, c19->report);
		} else if (WIFSIGNALED(st)) {
			crashed(c19->cur, C19_SIGNAL, WTERMSIG(st), "");
		} else {
			/* neither a report nor a signal (the sanitizer run-time giving up under memory
			 * pressure looks like this): the same case again, up to three times */
			if (retried != c19->cur) {
				retried = c19->cur;
				retries = 0;
			}
			if (retries++ < 3) {
				++*c_retry;
				--*c_died;
				start = c19->cur;
				continue;
			}
			crashed(c19->cur, C19_EXIT, WIFEXITED(st) ? WEXITSTATUS(st) : -1, "");
		}
		start = c19->cur + 1;
	}
	c19_fold_counters();
}

#endif	/* VERIF_C19_COMMON_H */
