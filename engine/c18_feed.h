/* c18_feed.h -- run a real binary with its stdin delivered through a pipe in
 * scripted pieces (C18: seams list and transfer of reader-level findings).
 *
 * Piece k is data[cut[k-1] .. cut[k]).  A piece is written, then the writer
 * waits until the pipe is drained (FIONREAD == 0) before it writes the next
 * one.  The reader asks for at most 4096 bytes per read(), so inside a piece it
 * sees full 4096-byte reads (a pipe hands out whole buffer pages) and one short
 * read at the end of the piece: a piece boundary is a read() boundary.
 * Nothing here depends on timing: the writer never has two pieces in the pipe. */
#ifndef VERIF_C18_FEED_H
#define VERIF_C18_FEED_H
#include <stdio.h>
#include <stdlib.h>
#include <string.h>
#include <unistd.h>
#include <errno.h>
#include <fcntl.h>
#include <signal.h>
#include <time.h>
#include <sys/ioctl.h>
#include <sys/wait.h>

struct feed_res {
	int exited, status;
	int signaled, sig;
	int timed_out;
	long written;		/* bytes the child took before it went away */
};

static double
feed_now(void)
{
	struct timespec ts;
	clock_gettime(CLOCK_MONOTONIC, &ts);
	return (double)ts.tv_sec + 1e-9 * (double)ts.tv_nsec;
}

/* argv NULL-terminated; output (stdout) to OUTPATH, stderr to /dev/null.
 * cuts: NCUTS increasing offsets < len (piece ends); the last piece ends at len.
 * Returns 0 if the child was run. */
static int
feed_run(const char *const argv[], const char *data, size_t len, const size_t *cuts, int ncuts,
	 const char *outpath, int timeout_s, struct feed_res *r)
{
	int pfd[2];
	pid_t pid;
	int st = 0;
	double t0 = feed_now();
	void (*oldpipe)(int);

	memset(r, 0, sizeof(*r));
	if (pipe(pfd) < 0) {
		return -1;
	}
	fflush(stdout);
	fflush(stderr);
	if ((pid = fork()) < 0) {
		return -1;
	}
	if (pid == 0) {
		int ofd = open(outpath, O_WRONLY | O_CREAT | O_TRUNC, 0644);
		int nfd = open("/dev/null", O_WRONLY);
		struct itimerval z = {{0, 0}, {0, 0}};
		setitimer(ITIMER_REAL, &z, NULL);
		signal(SIGALRM, SIG_DFL);
		signal(SIGSEGV, SIG_DFL);
		signal(SIGBUS, SIG_DFL);
		signal(SIGABRT, SIG_DFL);
		signal(SIGFPE, SIG_DFL);
		signal(SIGPIPE, SIG_DFL);
		dup2(pfd[0], 0);
		dup2(ofd, 1);
		dup2(nfd, 2);
		close(pfd[0]);
		close(pfd[1]);
		close(ofd);
		close(nfd);
		alarm((unsigned)timeout_s);
		execv(argv[0], (char *const*)argv);
		_exit(127);
	}
	close(pfd[0]);
	oldpipe = signal(SIGPIPE, SIG_IGN);
	{
		size_t o = 0;
		int dead = 0;
		for (int k = 0; k <= ncuts && !dead; k++) {
			size_t end = k < ncuts ? cuts[k] : len;
			if (end > len) {
				end = len;
			}
			while (o < end) {
				ssize_t w = write(pfd[1], data + o, end - o);
				if (w < 0) {
					if (errno == EINTR) {
						continue;
					}
					dead = 1;
					break;
				}
				o += (size_t)w;
			}
			/* wait for the reader to take everything */
			while (!dead) {
				int pending = 0;
				if (ioctl(pfd[1], FIONREAD, &pending) < 0 || pending == 0) {
					break;
				}
				if (waitpid(pid, &st, WNOHANG) == pid) {
					dead = 2;
					break;
				}
				if (feed_now() - t0 > timeout_s + 2) {
					break;
				}
				{
					struct timespec ts = {0, 20000};
					nanosleep(&ts, NULL);
				}
			}
			if (dead == 2) {
				r->written = (long)o;
				close(pfd[1]);
				goto reaped;
			}
		}
		r->written = (long)o;
	}
	close(pfd[1]);
	while (waitpid(pid, &st, 0) < 0 && errno == EINTR) {
		;
	}
reaped:
	signal(SIGPIPE, oldpipe);
	if (WIFEXITED(st)) {
		r->exited = 1;
		r->status = WEXITSTATUS(st);
	} else if (WIFSIGNALED(st)) {
		r->signaled = 1;
		r->sig = WTERMSIG(st);
		r->timed_out = r->sig == SIGALRM;
	}
	return 0;
}

static const char*
feed_ending(const struct feed_res *r)
{
	static char buf[64];
	if (r->timed_out) {
		return "did not terminate within the limit";
	}
	if (r->signaled) {
		snprintf(buf, sizeof(buf), "killed by signal %d", r->sig);
		return buf;
	}
	snprintf(buf, sizeof(buf), "exit %d", r->status);
	return buf;
}

/* compare what a sed-mode filter printed (file OUTPATH) with its input for lines
 * without date/times: equal, except that a missing final newline may have been
 * supplied and a \r directly before a \n may have been dropped (the reader's
 * CRLF handling).  Returns 0 equal, 1 differs (first departing input offset in
 * *AT, output size in *OSZ). */
static int
feed_cmp_passthrough(const char *in, size_t len, const char *outpath, long *at, long *osz)
{
	FILE *b = fopen(outpath, "r");
	size_t i = 0;
	int cb;
	long n = 0;

	*at = -1;
	*osz = 0;
	if (b == NULL) {
		*at = 0;
		return 1;
	}
	fseek(b, 0, SEEK_END);
	*osz = ftell(b);
	fseek(b, 0, SEEK_SET);
	for (;;) {
		cb = fgetc(b);
		if (i < len && in[i] == '\r' && cb == '\n' && (i + 1 == len || in[i + 1] == '\n')) {
			/* \r dropped */
			i++;
			if (i == len) {
				/* "...\r" unterminated: newline supplied */
				cb = fgetc(b);
				break;
			}
		}
		if (i == len) {
			if (cb == '\n' && len && in[len - 1] != '\n') {
				cb = fgetc(b);
			}
			break;
		}
		if (cb == EOF || (unsigned char)in[i] != (unsigned char)cb) {
			*at = (long)i;
			fclose(b);
			return 1;
		}
		i++;
		n++;
	}
	fclose(b);
	if (cb != EOF) {
		*at = (long)i;
		return 1;
	}
	(void)n;
	return 0;
}

#endif
