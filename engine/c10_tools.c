/* c10_tools.c -- C10, tool level: the tools' main() run in forked children (forksrv.h: argv in
 * exact-size heap blocks, scripted stdin, fake clock, output cap, time limit), ASan build.
 * One explorer executable per tool (-DTOOL_dconv ...), because every tool file brings its own
 * option parser with the same static names.
 *
 *  shape runs   formats of 246..262 bytes (literal padding + each specifier of the grammar at the
 *               end / at the start / the specifier repeated) against the 256-byte output buffers
 *               of dt_io_write (dconv dadd dround dseq dgrep strptime), ddiff_prnt (ddiff) and
 *               against dzone's gbuf (zone names of 240..262 bytes); as -f, and as -i with a
 *               matching input; with and without -e (backslash escapes, trailing backslash);
 *               date on the command line and on stdin (-S too).
 *  not-a-date   a list of texts that are no dates: exit status must be nonzero / the line passed through.
 *  dgrep only   every string of length <= L over {%% Y m = < > & | ! ( 2 SPC} as EXPRESSION (the
 *               flex/bison parser, dexpr_parse and simplification), one matching + one other line.
 *  ddiff only   in-process: ddiff.c's own duration formatter __strfdtdur() with every format string
 *               of length <= L over {%% d m Y w H S T r 0 b -} x durations x every buffer size 0..40.
 * Oracles: no ASan/bounds report in the child (first report is written to the child's stderr as a
 * C10REPORT line), no fatal signal, ends within 2 s, output cap not hit; not-a-date is reported. */
#include "impl.h"
#include "explore.h"
#include "c10_tok.h"
#include "forksrv.h"

#if defined TOOL_dconv
# define TOOLNAME "dconv"
# define main tool_main
# include "dconv.c"
# undef main
#elif defined TOOL_dadd
# define TOOLNAME "dadd"
# define main tool_main
# include "dadd.c"
# undef main
#elif defined TOOL_ddiff
# define TOOLNAME "ddiff"
# define main tool_main
# include "ddiff.c"
# undef main
#elif defined TOOL_dround
# define TOOLNAME "dround"
# define main tool_main
# include "dround.c"
# undef main
#elif defined TOOL_dseq
# define TOOLNAME "dseq"
# define main tool_main
# include "dseq.c"
# undef main
#elif defined TOOL_dgrep
# define TOOLNAME "dgrep"
# define main tool_main
# include "dgrep.c"
# undef main
#elif defined TOOL_dtest
# define TOOLNAME "dtest"
# define main tool_main
# include "dtest.c"
# undef main
#elif defined TOOL_dzone
# define TOOLNAME "dzone"
# define main tool_main
# include "dzone.c"
# undef main
#elif defined TOOL_dsort
# define TOOLNAME "dsort"
# define main tool_main
# include "dsort.c"
# undef main
#elif defined TOOL_strptime
# define TOOLNAME "strptime"
# define main tool_main
# include "strptime.c"
# undef main
#else
# error "define TOOL_<name>"
#endif

static int replay_verbose, replay_fails;

/* in the child: a fatal signal names the function it happened in before it kills the process */
static void
child_fatal(int sig, siginfo_t *si, void *uc_)
{
	ucontext_t *uc = uc_;
	char site[48], line[200];
	int n;
	(void)si;
	xs_name((uintptr_t)uc->uc_mcontext.gregs[REG_RIP], site, sizeof(site));
	if (sig == SIGABRT) {
		n = snprintf(line, sizeof(line), "\nC10REPORT abort()\n");
	} else {
		n = snprintf(line, sizeof(line), "\nC10REPORT %s in %s\n", xg_signame(sig), site);
	}
	if (xr.total++ == 0 && write(2, line, (size_t)n) < 0) {
		;
	}
	signal(sig, SIG_DFL);
	raise(sig);
}
static int
tool_main_guarded(int argc, char *argv[])
{
	struct sigaction sa;
	memset(&sa, 0, sizeof(sa));
	sa.sa_sigaction = child_fatal;
	sa.sa_flags = SA_SIGINFO | SA_NODEFER | SA_RESETHAND;
	sigaction(SIGSEGV, &sa, NULL);
	sigaction(SIGBUS, &sa, NULL);
	sigaction(SIGFPE, &sa, NULL);
	sigaction(SIGILL, &sa, NULL);
	sigaction(SIGABRT, &sa, NULL);
	return tool_main(argc, argv);
}

static void
report(const char *key, double ord, const char *cas, const char *cmd, const char *fmt, ...)
{
	char detail[1500];
	va_list ap;
	va_start(ap, fmt);
	vsnprintf(detail, sizeof(detail), fmt, ap);
	va_end(ap);
	xv_viol(key, ord, cas, cmd, detail);
	if (replay_verbose) {
		printf("  VIOLATION [%s] %s\n", key, detail);
		replay_fails++;
	}
}

static const char *const env_c[] = {"LC_ALL=C", "TZ=UTC", NULL};
static char env_locale[600];
static const char *env_tool[4];

/* one run; CLASS names the discrete coordinates.  expect: 0 nothing, 1 = must fail (nonzero status, no stdout),
 * 2 = must pass the stdin line through unchanged */
/* when set: the run may print at most this many bytes (output bounded by the input) */
static size_t tool_out_bound;

static void
tool_run(const char *kind, const char *class, const char *fine, double ord, const char *cas, int argc, const char *const *argv, const char *in, int expect)
{
	EX_CTR(c_eval, "evaluations");
	EX_CTR(c_runs, "tool_runs");
	EX_CTR(c_nontriv, "nontrivial");
	EX_CTR(c_fail, "tool_runs_nonzero_status");
	struct fs_opts o = {0};
	struct fs_result r;
	char key[400], cmd[1600], ae[400];
	const char *rep;
	size_t k = 0;

	++*c_runs;
	++*c_eval;
	o.stdin_data = in;
	o.stdin_len = in ? strlen(in) : 0;
	o.now = 1330862400;	/* 2012-03-04T12:00:00Z */
	o.env = env_tool;
	o.timeout_s = 2;
	o.out_cap = tool_out_bound ? tool_out_bound : 1U << 20;
	xr.total = 0;
	xr.n = 0;
	xr_emit_fd = 2;
	fs_run(tool_main_guarded, argc, argv, &o, &r);
	xr_emit_fd = -1;

	cmd[0] = '\0';
	if (in) {
		k += (size_t)snprintf(cmd + k, sizeof(cmd) - k, "printf '%%s' '%s' | ", xe_esc(in, strlen(in), ae, sizeof(ae)));
	}
	for (int i = 0; i < argc && k + 300 < sizeof(cmd); i++) {
		size_t l = strlen(argv[i]);
		if (l > 60) {
			/* long argument: say how it is built instead of printing 260 bytes */
			size_t run = 0;
			while (run < l && argv[i][run] == argv[i][0]) {
				run++;
			}
			if (run > 20) {
				k += (size_t)snprintf(cmd + k, sizeof(cmd) - k, "\"$(printf '%c%%.0s' $(seq %zu))%s\" ", argv[i][0], run, xe_esc(argv[i] + run, l - run, ae, sizeof(ae)));
			} else {
				k += (size_t)snprintf(cmd + k, sizeof(cmd) - k, "'%s' ", xe_esc(argv[i], l, ae, sizeof(ae)));
			}
		} else {
			k += (size_t)snprintf(cmd + k, sizeof(cmd) - k, i ? "'%s' " : "%s ", xe_esc(argv[i], l, ae, sizeof(ae)));
		}
	}
	ex_outcome(ex_hash_mix(ex_hash(r.out, r.outlen), (uint64_t)(r.exited ? r.status : 1000 + r.sig)));
	if (r.exited && r.status) {
		++*c_fail;
	}
	if (r.err && strstr(r.err, "C10SKIP widened")) {
		EX_CTR(c_skipw, "skipped:runs with a compiler-widened load of a packed struct overlapping a stack red zone (gcc artifact, not a defect)");
		++*c_skipw;
	}
	rep = r.err ? strstr(r.err, "C10REPORT ") : NULL;
	if (rep) {
		char line[200];
		snprintf(line, sizeof(line), "%.180s", rep + 10);
		line[strcspn(line, "\n")] = '\0';
		/* the site names the defect; invocation, shape and specifier go into the detail only */
		snprintf(key, sizeof(key), TOOLNAME " %s: %s", kind, line);
		report(key, ord, cas, cmd, "%s (%s %s): %s; the run ended with %s", cmd, class, fine, line, fs_ending(&r));
		++*c_nontriv;
	}
	if (rep && r.signaled && !r.timed_out && !r.capped) {
		;	/* the signal is the report */
	} else if (r.timed_out || r.capped || r.signaled) {
		snprintf(key, sizeof(key), TOOLNAME " %s %s%s%s: %s", kind, class, *fine ? ", " : "", fine, r.timed_out ? "does not end within 2 s" : r.capped ? (tool_out_bound ? "prints more than 64 x the input" : "output cap (1 MiB) hit") :
			 r.sig == SIGILL ? "array index out of bounds (-fsanitize=bounds trap)" : r.sig == SIGABRT ? "abort()" : r.sig == SIGSEGV ? "SIGSEGV" : "fatal signal");
		report(key, ord, cas, cmd, "%s: %s; stderr: %.200s", cmd, fs_ending(&r), r.err ? r.err : "");
		if (!rep) {
			++*c_nontriv;
		}
	} else if (expect == 1 && r.status == 0) {
		snprintf(key, sizeof(key), TOOLNAME " %s: text that is not a date is not reported as such", kind);
		report(key, ord, cas, cmd, "%s: exit %d, stdout \"%.80s\"", cmd, r.status, r.out);
	} else if (expect == 2 && (r.outlen != strlen(in) || memcmp(r.out, in, r.outlen))) {
		snprintf(key, sizeof(key), TOOLNAME " %s: line without a date is not passed through unchanged", kind);
		report(key, ord, cas, cmd, "%s: exit %d, stdout \"%.80s\"", cmd, r.status, xe_esc(r.out, r.outlen, ae, sizeof(ae)));
	}
	if (replay_verbose) {
		printf("  %s\n  -> %s, %zu bytes on stdout, stderr: %.300s\n", cmd, fs_ending(&r), r.outlen, r.err ? r.err : "");
	}
	if (ex_want_sample()) {
		ex_sample("%.300s -> %s, %zu bytes out", cmd, fs_ending(&r), r.outlen);
	}
	fs_free(&r);
}

/* ---- shapes ---- */
static const char *const date_specs[] = {
	"%F", "%T", "%Y", "%y", "%_y", "%m", "%d", "%u", "%w", "%D", "%j", "%c", "%U", "%V", "%C", "%W", "%A", "%a", "%_a", "%B", "%b", "%h", "%_b",
	"%I", "%H", "%M", "%S", "%N", "%p", "%P", "%s", "%s%N", "%Z", "%Q", "%q", "%G", "%g", "%rY", "%Od", "%Om", "%OY", "%Oy", "%Oc", "%dth", "%mth", "%Yth",
	"%db", "%dB", "%jb", "%%", "%t", "%n", "%", "%_", "%O", "%x", "%-d", "%_d", "% d", "%0d", "\\n", "\\", "\\x",
};
#define NDSPEC	((int)(sizeof(date_specs) / sizeof(*date_specs)))
static const char *const dur_specs[] = {
	"%d", "%m", "%y", "%Y", "%w", "%q", "%H", "%M", "%S", "%N", "%T", "%rS", "%rT", "%0d", "%dB", "%db", "%F", "%c", "%%", "%t", "%n", "%", "%O", "%Od", "%dth", "\\",
};
#define NUSPEC	((int)(sizeof(dur_specs) / sizeof(*dur_specs)))

enum { SH_PAD_SPEC, SH_SPEC_PAD, SH_REPEAT, NSHAPE };
static const char *const shape_name[] = {"padding+spec", "spec+padding", "spec repeated"};
#define LEN_LO	246
#define LEN_HI	262

/* build the format of SHAPE with total length N around SPEC */
static void
mk_fmt(char *buf, int shape, const char *spec, size_t n)
{
	size_t sl = strlen(spec);
	switch (shape) {
	case SH_PAD_SPEC:
		memset(buf, 'x', n - sl);
		memcpy(buf + n - sl, spec, sl);
		break;
	case SH_SPEC_PAD:
		memcpy(buf, spec, sl);
		memset(buf + sl, 'x', n - sl);
		break;
	case SH_REPEAT: {
		size_t k = 0;
		while (k + sl <= n) {
			memcpy(buf + k, spec, sl);
			k += sl;
		}
		memset(buf + k, 'x', n - k);
		break;
	}
	}
	buf[n] = '\0';
}

/* what each tool is run with; FMT goes where %F stands */
struct inv {
	const char *name;		/* invocation class */
	const char *argv[8];		/* "@" = the format, "@e" = -e in front (escapes) */
	const char *in;			/* stdin */
	int dur;			/* uses the duration specifiers */
};
static const struct inv invs[] = {
#if defined TOOL_dconv
	{"-f arg", {"dconv", "-f", "@", "2012-03-04T12:34:56"}, NULL, 0},
	{"-e -f arg", {"dconv", "-e", "-f", "@", "2012-03-04T12:34:56"}, NULL, 0},
	{"-f stdin", {"dconv", "-f", "@"}, "2012-03-04T12:34:56\n", 0},
	{"-S -f stdin", {"dconv", "-S", "-f", "@"}, "foo 2012-03-04 bar 2012-03-05\n", 0},
	{"-f ywd arg", {"dconv", "-f", "@", "2012-W09-7"}, NULL, 0},
	{"-f bizda arg", {"dconv", "-f", "@", "2012-03-02b"}, NULL, 0},
	{"-f zone arg", {"dconv", "-z", "Europe/Berlin", "-f", "@", "2012-03-04T12:34:56"}, NULL, 0},
	{"-i arg", {"dconv", "-i", "@", "2012-03-04T12:34:56"}, NULL, 0},
#elif defined TOOL_dadd
	{"-f arg", {"dadd", "-f", "@", "2012-03-04T12:34:56", "+1d"}, NULL, 0},
	{"-e -f arg", {"dadd", "-e", "-f", "@", "2012-03-04T12:34:56", "+1d"}, NULL, 0},
	{"-f stdin", {"dadd", "-f", "@", "+1mo"}, "2012-03-04\n", 0},
	{"-S -f stdin", {"dadd", "-S", "-f", "@", "+1d"}, "foo 2012-03-04 bar\n", 0},
#elif defined TOOL_ddiff
	{"-f arg", {"ddiff", "-f", "@", "2012-03-04T12:34:56", "2013-05-17T23:01:02"}, NULL, 1},
	{"-e -f arg", {"ddiff", "-e", "-f", "@", "2012-03-04T12:34:56", "2013-05-17T23:01:02"}, NULL, 1},
	{"-f neg arg", {"ddiff", "-f", "@", "2013-05-17", "2012-03-04"}, NULL, 1},
	{"-f stdin", {"ddiff", "-f", "@", "2012-03-04"}, "2013-05-17\n", 1},
	{"-S -f stdin", {"ddiff", "-S", "-f", "@", "2012-03-04"}, "foo 2013-05-17 bar\n", 1},
#elif defined TOOL_dround
	{"-f arg", {"dround", "-f", "@", "2012-03-04T12:34:56", "Mon"}, NULL, 0},
	{"-e -f arg", {"dround", "-e", "-f", "@", "2012-03-04T12:34:56", "1h"}, NULL, 0},
	{"-f stdin", {"dround", "-f", "@", "Mon"}, "2012-03-04\n", 0},
	{"-S -f stdin", {"dround", "-S", "-f", "@", "Mon"}, "foo 2012-03-04 bar\n", 0},
#elif defined TOOL_dseq
	{"-f arg", {"dseq", "-f", "@", "2012-03-04", "2012-03-06"}, NULL, 0},
	{"-e -f arg", {"dseq", "-e", "-f", "@", "2012-03-04", "2012-03-06"}, NULL, 0},
	{"-f time", {"dseq", "-f", "@", "12:00:00", "1h", "14:00:00"}, NULL, 0},
	{"-i arg", {"dseq", "-i", "@", "2012-03-04", "2012-03-06"}, NULL, 0},
#elif defined TOOL_dgrep
	{"-i stdin", {"dgrep", "-i", "@", ">=2012-03-01"}, "foo 2012-03-04 bar\n", 0},
	{"-o -i stdin", {"dgrep", "-o", "-i", "@", ">=2012-03-01"}, "foo 2012-03-04 bar\n", 0},
	{"-e -i stdin", {"dgrep", "-e", "-i", "@", ">=2012-03-01"}, "foo 2012-03-04 bar\n", 0},
#elif defined TOOL_dtest
	{"-i arg", {"dtest", "-i", "@", "2012-03-04", "--gt", "2012-03-05"}, NULL, 0},
	{"-e -i arg", {"dtest", "-e", "-i", "@", "2012-03-04", "--gt", "2012-03-05"}, NULL, 0},
#elif defined TOOL_dzone
	{"-i arg", {"dzone", "-i", "@", "Europe/Berlin", "2012-03-04T12:34:56"}, NULL, 0},
#elif defined TOOL_dsort
	{"-i stdin", {"dsort", "-i", "@"}, "2012-03-05\n2012-03-04\n", 0},
#elif defined TOOL_strptime
	{"-f arg", {"strptime", "-f", "@", "-i", "%Y-%m-%d", "2012-03-04"}, NULL, 0},
	{"-e -f arg", {"strptime", "-e", "-f", "@", "-i", "%Y-%m-%d", "2012-03-04"}, NULL, 0},
	{"-i arg", {"strptime", "-i", "@", "2012-03-04"}, NULL, 0},
#endif
};
#define NINV	((int)(sizeof(invs) / sizeof(*invs)))

static void
shape_case(int iv, int shape, int si, size_t n)
{
	const struct inv *v = invs + iv;
	const char *spec = v->dur ? dur_specs[si] : date_specs[si];
	const char *argv[8];
	char fmt[400], class[160], fine[64], cas[64];
	int argc = 0;

	if (strlen(spec) > n) {
		return;
	}
	mk_fmt(fmt, shape, spec, n);
	for (int i = 0; i < 8 && v->argv[i]; i++) {
		argv[argc++] = !strcmp(v->argv[i], "@") ? fmt : v->argv[i];
	}
	snprintf(class, sizeof(class), "[%s]", v->name);
	snprintf(fine, sizeof(fine), "%s %s", shape_name[shape], spec);
	snprintf(cas, sizeof(cas), "S %d %d %d %zu", iv, shape, si, n);
	tool_run("long format", class, fine, (double)n, cas, argc, argv, v->in, 0);
}

/* ---- formats with a byte >= 0x80 among the first four ---- */
static void
highbyte_case(int iv, int k)
{
	const struct inv *v = invs + iv;
	const char *argv[8];
	char fmt[32], class[160], fine[64], cas[64];
	static const char *const tails[] = {"%F", "%d", "", "ymd"};
	int argc = 0, ins = k % XH_NINS, pos = (k / XH_NINS) % 4, tl = k / (XH_NINS * 4);
	size_t n = 0;

	for (int i = 0; i < pos; i++) {
		fmt[n++] = 'a';
	}
	n += (size_t)snprintf(fmt + n, sizeof(fmt) - n, "%s%s", xh_ins[ins], tails[tl]);
	for (int i = 0; i < 8 && v->argv[i]; i++) {
		argv[argc++] = !strcmp(v->argv[i], "@") ? fmt : v->argv[i];
	}
	snprintf(class, sizeof(class), "[%s]", v->name);
	snprintf(fine, sizeof(fine), "byte 0x%02x at position %d", (unsigned char)xh_ins[ins][0], pos);
	snprintf(cas, sizeof(cas), "H %d %d", iv, k);
	tool_run("format with a byte >= 0x80", class, fine, (double)pos, cas, argc, argv, v->in, 0);
}
#define NHIGH	(XH_NINS * 4 * 4)

/* ---- texts that are not dates ---- */
static const char *const not_dates[] = {
	"xyzzy", "", "2012", "2012-", "2012-13-01x", "-", "12:", "@", "@x", "99999999999999999999", "\x01", "2012-03-04x", "now!", "20 12-03-04",
};
#define NNOT	((int)(sizeof(not_dates) / sizeof(*not_dates)))

static void
notdate_case(int k)
{
	const char *t = not_dates[k];
	char cas[32], line[64];
	snprintf(cas, sizeof(cas), "N %d", k);
#if defined TOOL_dconv
	{
		const char *a1[] = {"dconv", "--", t};
		tool_run("not a date, argument", "", "", (double)strlen(t), cas, 3, a1, NULL, k == 1 ? 0 : (k == 2 || k == 11) ? 0 : 1);
	}
	if (k != 2 && k != 11 && k != 13) {
		const char *a2[] = {"dconv", "-S"};
		snprintf(line, sizeof(line), "%s\n", t);
		snprintf(cas, sizeof(cas), "M %d", k);
		tool_run("not a date, -S stdin line", "", "", (double)strlen(t), cas, 2, a2, line, 2);
	}
#elif defined TOOL_dadd
	{
		const char *a1[] = {"dadd", "--", t, "+1d"};
		tool_run("not a date, argument", "", "", (double)strlen(t), cas, 4, a1, NULL, 0);
	}
	{
		const char *a2[] = {"dadd", "2012-03-04", "--", t};
		snprintf(cas, sizeof(cas), "M %d", k);
		tool_run("not a duration, argument", "", "", (double)strlen(t), cas, 4, a2, NULL, k == 2 ? 0 : 1);
	}
#elif defined TOOL_ddiff
	{
		const char *a1[] = {"ddiff", "2012-03-04", "--", t};
		tool_run("not a date, argument", "", "", (double)strlen(t), cas, 4, a1, NULL, 0);
	}
#elif defined TOOL_dtest
	{
		const char *a1[] = {"dtest", "2012-03-04", "--gt", t};
		tool_run("not a date, argument", "", "", (double)strlen(t), cas, 4, a1, NULL, 0);
	}
#elif defined TOOL_dseq
	{
		const char *a1[] = {"dseq", "2012-03-04", "--", t};
		tool_run("not a date, argument", "", "", (double)strlen(t), cas, 4, a1, NULL, 0);
	}
#elif defined TOOL_dround
	{
		const char *a1[] = {"dround", "2012-03-04", "--", t};
		tool_run("not a rounding spec, argument", "", "", (double)strlen(t), cas, 4, a1, NULL, 0);
	}
#elif defined TOOL_dzone
	{
		const char *a1[] = {"dzone", "Europe/Berlin", "--", t};
		tool_run("not a date, argument", "", "", (double)strlen(t), cas, 4, a1, NULL, 0);
	}
#elif defined TOOL_dgrep
	{
		const char *a1[] = {"dgrep", "--", t};
		tool_run("not an expression, argument", "", "", (double)strlen(t), cas, 3, a1, "2012-03-04\n", 0);
	}
#elif defined TOOL_dsort
	{
		const char *a1[] = {"dsort"};
		snprintf(line, sizeof(line), "%s\n2012-03-04\n", t);
		tool_run("not a date, stdin line", "", "", (double)strlen(t), cas, 1, a1, line, 0);
	}
#elif defined TOOL_strptime
	{
		const char *a1[] = {"strptime", "-i", "%Y-%m-%d", "--", t};
		tool_run("not a date, argument", "", "", (double)strlen(t), cas, 5, a1, NULL, 0);
	}
#endif
	(void)line;
}

#if defined TOOL_dconv || defined TOOL_dadd || defined TOOL_dround || defined TOOL_dgrep
/* ---- two input formats, one without a needle (digits only) and one with: the text in front of a needle match is
 * tried and refused / accepted by the needle-less one.  Ends within the watchdog, prints at most 64 x the input. */
static const char *const tf_digits[] = {"%Y%m%d", "%H%M%S", "%s", "%Y%j"};
static const char *const tf_needle[] = {"%d/%m/%Y", "%Y-%m-%d", "%H:%M:%S", "%d %b %Y"};
static const char *const tf_text[] = {"07/03/2012", "2012-03-07", "12:34:56", "07 Mar 2012"};
static const char *const tf_front[] = {"id 99999999 seen ", "id 9999 seen ", "id 20120304 seen ", "", "seen ", "99999999", "99999999 ", "20120304 ", "id 99999999 and 9999 and 20120304 seen ", "-99999999 "};
static const char *const tf_front_name[] = {"8 digits that are no date", "too few digits", "a valid date", "nothing", "no digits", "8 digits that are no date, adjacent", "8 digits and a blank", "a valid date and a blank", "several numbers", "a negative number"};
static const char *const tf_back[] = {" end", "", " end 99999999", " and 08/03/2012 2012-03-08 12:34:57 08 Mar 2012"};
#define TF_ND	4
#define TF_NN	4
#define TF_NF	10
#define TF_NB	4
static const struct {
	const char *a[4];
	int n;
	const char *name;
} tf_inv[] = {
#if defined TOOL_dconv
	{{"dconv", "-S"}, 2, "dconv -S"},
	{{"dconv"}, 1, "dconv"},
#elif defined TOOL_dadd
	{{"dadd", "-S", "+1d"}, 3, "dadd -S"},
	{{"dadd", "+1d"}, 2, "dadd"},
#elif defined TOOL_dround
	{{"dround", "-S", "+1d"}, 3, "dround -S"},
	{{"dround", "+1d"}, 2, "dround"},
#elif defined TOOL_dgrep
	{{"dgrep", ">=2000-01-01"}, 2, "dgrep"},
	{{"dgrep", "-o", ">=2000-01-01"}, 3, "dgrep -o"},
	{{"dgrep", "-v", ">=2000-01-01"}, 3, "dgrep -v"},
#endif
};
#define TF_NINV	((int)(sizeof(tf_inv) / sizeof(*tf_inv)))
#define TF_TOTAL	(TF_NINV * TF_ND * TF_NN * 2)
static void
twofmt_case(int k, int only)
{
	int order = k % 2, ni = k / 2 % TF_NN, di = k / 2 / TF_NN % TF_ND, iv = k / 2 / TF_NN / TF_ND;
	const char *argv[12];
	char in[256], cas[48], class[96], fine[96];
	int argc = 0;

	for (int i = 0; i < tf_inv[iv].n; i++) {
		argv[argc++] = tf_inv[iv].a[i];
	}
	argv[argc++] = "-i";
	argv[argc++] = order ? tf_needle[ni] : tf_digits[di];
	argv[argc++] = "-i";
	argv[argc++] = order ? tf_digits[di] : tf_needle[ni];
	for (int f = 0; f < TF_NF; f++) {
		for (int b = 0; b < TF_NB; b++) {
			if (only >= 0 && only != f * TF_NB + b) {
				continue;
			}
			snprintf(in, sizeof(in), "%s%s%s\n", tf_front[f], tf_text[ni], tf_back[b]);
			snprintf(cas, sizeof(cas), "W %d %d", k, f * TF_NB + b);
			snprintf(class, sizeof(class), "%s", tf_inv[iv].name);
			snprintf(fine, sizeof(fine), "in front of the match: %s", tf_front_name[f]);
			tool_out_bound = 64 * strlen(in) + 256;
			(void)fine;	/* which text is in front goes into the command line of the detail, not the key */
			tool_run("two input formats (digits only + with separator), stdin line", class, "", (double)strlen(in), cas, argc, argv, in, 0);
			tool_out_bound = 0;
		}
	}
}
#endif

#if defined TOOL_dzone
/* zone names of 240..262 bytes that resolve: Europe/../Europe/../.../Berlin */
static void
zname_case(size_t n)
{
	char name[400], cas[32];
	const char *argv[] = {"dzone", name, "2012-03-04T12:34:56"};
	size_t k = 0;
	/* n = 7 ("Europe/") + 10 k ("../Europe/") + 2 j ("./") + r ("/") + 6 ("Berlin") */
	size_t kk = (n - 13) / 10, rem = (n - 13) % 10, jj = rem / 2, rr = rem % 2;
	memcpy(name, "Europe/", 7);
	k = 7;
	for (size_t i = 0; i < kk; i++, k += 10) {
		memcpy(name + k, "../Europe/", 10);
	}
	for (size_t i = 0; i < jj; i++, k += 2) {
		memcpy(name + k, "./", 2);
	}
	if (rr) {
		name[k++] = '/';
	}
	memcpy(name + k, "Berlin", 7);
	snprintf(cas, sizeof(cas), "Z %zu", n);
	tool_run("long zone name", "", "", (double)n, cas, 3, argv, NULL, 0);
}
#endif

#if defined TOOL_dadd || defined TOOL_dround || defined TOOL_dseq
/* ---- duration lists of every length (the list of dt-io.c grows in steps of 16 entries) ----
 * dadd / dround: the list (i) as one concatenated argument, (ii) one argument per duration, (iii, dadd) as one
 * line on stdin for `dadd DATE'; the result must equal the chain of runs that apply one duration at a time.
 * dseq: the compound increment `dseq FIRST <list> LAST'; its second line must equal FIRST plus the durations
 * added one at a time by the library. */
#define DL_DATE	"2012-03-04T12:34:56"
#if defined TOOL_dadd
static const int dl_pats[] = {0, 1, 2, 3, 4, 5, 6, 7, 8, 9};
# define DL_NFORM	3
#elif defined TOOL_dround
static const int dl_pats[] = {0, 3, 4, 5, 6, 7, 10};
# define DL_NFORM	2
#else
static const int dl_pats[] = {0, 1, 2, 3, 4};
# define DL_NFORM	1
#endif
#define DL_NPAT	((int)(sizeof(dl_pats) / sizeof(*dl_pats)))
static const char *const dl_form[] = {"one concatenated argument", "one argument per duration", "one line on stdin"};

/* run and keep stdout; class key prefix names the form.  Returns 0 ok, 1 report/signal (already recorded) */
static int
dl_run(int argc, const char *const *argv, const char *in, char *out, size_t osz, const char *form, double ord, const char *cas)
{
	EX_CTR(c_eval, "evaluations");
	EX_CTR(c_runs, "tool_runs");
	struct fs_opts o = {0};
	struct fs_result r;
	char key[300], cmd[1800];
	const char *rep;
	size_t k = 0;
	int bad = 0;

	++*c_runs;
	++*c_eval;
	o.stdin_data = in;
	o.stdin_len = in ? strlen(in) : 0;
	o.now = 1330862400;
	o.env = env_tool;
	o.timeout_s = 2;
	o.out_cap = 1U << 20;
	xr.total = 0;
	xr.n = 0;
	xr_emit_fd = 2;
	fs_run(tool_main_guarded, argc, argv, &o, &r);
	xr_emit_fd = -1;
	snprintf(out, osz, "%s", r.out ? r.out : "");
	if (in) {
		k += (size_t)snprintf(cmd + k, sizeof(cmd) - k, "echo '%.600s' | ", in);
		if (k && cmd[k - 5] == '\n') {
			;
		}
	}
	for (int i = 0; i < argc && k + 64 < sizeof(cmd); i++) {
		k += (size_t)snprintf(cmd + k, sizeof(cmd) - k, i ? "'%.600s' " : "%s ", argv[i]);
	}
	for (char *q = cmd; *q; q++) {
		if (*q == '\n') {
			*q = ' ';
		}
	}
	rep = r.err ? strstr(r.err, "C10REPORT ") : NULL;
	if (rep) {
		char line[200];
		snprintf(line, sizeof(line), "%.180s", rep + 10);
		line[strcspn(line, "\n")] = '\0';
		snprintf(key, sizeof(key), TOOLNAME " duration list (%s): %s", form, line);
		report(key, ord, cas, cmd, "%s: %s; the run ended with %s", cmd, line, fs_ending(&r));
		bad = 1;
	} else if (r.timed_out || r.capped || r.signaled) {
		snprintf(key, sizeof(key), TOOLNAME " duration list (%s): %s", form, r.timed_out ? "does not end within 2 s" : r.capped ? "output cap (1 MiB) hit" :
			 r.sig == SIGABRT ? "abort()" : r.sig == SIGSEGV ? "SIGSEGV" : "fatal signal");
		report(key, ord, cas, cmd, "%s: %s; stderr: %.200s", cmd, fs_ending(&r), r.err ? r.err : "");
		bad = 1;
	}
	if (replay_verbose) {
		printf("  %s\n  -> %s, stdout '%.60s', stderr: %.200s\n", cmd, fs_ending(&r), out, r.err ? r.err : "");
	}
	if (ex_want_sample()) {
		ex_sample("%.300s -> %s, '%.40s'", cmd, fs_ending(&r), out);
	}
	ex_outcome(ex_hash(out, strlen(out)));
	fs_free(&r);
	return bad;
}

/* all list lengths 1..maxn of one pattern / sign variant; ONLY_N >= 0: judge that length only (replay) */
static void
durlist_pattern(int pi, int sv, int only_n)
{
	EX_CTR(c_nontriv, "nontrivial");
	EX_CTR(c_dl, "duration_list_runs_compared");
	int pat = dl_pats[pi], maxn = XD_MAXN(ex.thorough);
	char chain[256] = DL_DATE "\n", all[1400], el[24], out[4096], cas[64], key[300];
	static char elems[80][24];

	for (int n = 1; n <= maxn && !ex_expired(); n++) {
		const char *argv[90];
		char date[256], exp[256];
		int argc;

		xd_elem(pat, sv, n - 1, el, sizeof(el));
		snprintf(elems[n - 1], sizeof(elems[n - 1]), "%s", el);
		snprintf(date, sizeof(date), "%s", chain);
		date[strcspn(date, "\n")] = '\0';
#if defined TOOL_dseq
		{
			/* the library, one duration at a time */
			struct dt_dt_s d = dt_strpdt("2012-03-04", NULL, NULL);
			for (int i = 0; i < n; i++) {
				struct __strpdtdur_st_s s1 = {0};
				if (dt_io_strpdtdur(&s1, elems[i]) >= 0 && s1.ndurs == 1) {
					d = dt_dtadd(d, s1.durs[0]);
				}
				__strpdtdur_free(&s1);
			}
			dt_strfdt(exp, sizeof(exp) - 2, NULL, d);
			strcat(exp, "\n");
		}
#else
		/* the chain: the previous result plus this one duration, in a run of its own */
		snprintf(cas, sizeof(cas), "L %d %d %d -1", pi, sv, n);
		argc = 0;
		argv[argc++] = TOOLNAME;
		argv[argc++] = date;
		argv[argc++] = "--";
		argv[argc++] = el;
		if (dl_run(argc, argv, NULL, chain, sizeof(chain), "a single duration", (double)n, cas) || chain[0] == '\0') {
			return;	/* without the reference there is nothing to compare with */
		}
		snprintf(exp, sizeof(exp), "%s", chain);
#endif
		if (only_n >= 0 && n != only_n) {
			continue;
		}
		if (n > 16) {
			++*c_nontriv;
		}
		for (int form = 0; form < DL_NFORM; form++) {
			const char *in = NULL;
			snprintf(cas, sizeof(cas), "L %d %d %d %d", pi, sv, n, form);
			argc = 0;
			argv[argc++] = TOOLNAME;
#if defined TOOL_dseq
			xd_join(pat, sv, n, "", all, sizeof(all));
			argv[argc++] = "2012-03-04";
			argv[argc++] = all;
			/* LAST = the expected second element, so that two lines come out */
			exp[strcspn(exp, "\n")] = '\0';
			argv[argc++] = exp;
#else
			argv[argc++] = DL_DATE;
			if (form == 0) {
				xd_join(pat, sv, n, "", all, sizeof(all));
				argv[argc++] = "--";
				argv[argc++] = all;
			} else if (form == 1) {
				argv[argc++] = "--";
				for (int i = 0; i < n; i++) {
					argv[argc++] = elems[i];
				}
			} else {
				size_t l = xd_join(pat, sv, n, " ", all, sizeof(all) - 2);
				all[l] = '\n';
				all[l + 1] = '\0';
				in = all;
			}
#endif
			if (dl_run(argc, argv, in, out, sizeof(out), dl_form[form], (double)n, cas)) {
				continue;
			}
			++*c_dl;
#if defined TOOL_dseq
			{
				/* second line of the output */
				char *l2 = strchr(out, '\n');
				char want[300];
				snprintf(want, sizeof(want), "2012-03-04\n%s\n", exp);
				if (l2 == NULL || strcmp(out, want)) {
					snprintf(key, sizeof(key), TOOLNAME " duration list (compound increment): the first step differs from adding the durations one at a time");
					report(key, (double)n, cas, NULL, "dseq 2012-03-04 '%s' %s prints '%.80s', the durations added one at a time give %s", all, exp, out, exp);
				}
			}
#else
			if (strcmp(out, exp)) {
				snprintf(key, sizeof(key), TOOLNAME " duration list (%s): the result differs from applying the durations one at a time", dl_form[form]);
				report(key, (double)n, cas, NULL, "%d durations (%s, pattern %d): all at once gives '%.60s', one run per duration gives '%.60s'", n, elems[n - 1], pat, out, exp);
			}
#endif
		}
	}
}
#endif

#if defined TOOL_dgrep
static const char SE[] = "%Ym=<>&|!(2 ";
static void
expr_case(uint64_t idx)
{
	char e[32], cas[64], h[64];
	const char *argv[] = {"dgrep", "--", e};
	size_t len = idx2str(idx, SE, e);
	xe_hex(e, len, h, sizeof(h));
	snprintf(cas, sizeof(cas), "E %s", h);
	tool_run("expression", "", "", (double)len, cas, 3, argv, "2012-03-04\n2011-01-01\n", 0);
}
#endif

#if defined TOOL_ddiff
/* in-process: ddiff's own duration formatter with exact-size format and buffer */
static const char SK[] = "%dmYwHSTr0b-";
#define NKDUR	5
static struct dt_dtdur_s kdur[NKDUR];
static const char *const kdur_name[NKDUR] = {"+439d 10:26:06 as seconds", "-439 days", "1 month 13 days (ymd)", "nanoseconds", "unknown (all zero)"};

static int
strfdtdur_unit(uint64_t idx)
{
	EX_CTR(c_eval, "evaluations");
	EX_CTR(c_cases, "ddiff_formatter_cases");
	EX_CTR(c_nontriv, "nontrivial");
	char fmt[32], fe[64], fh[64], key[256], cas[128], outcopy[64], oe[200];
	size_t flen = idx2str(idx, SK, fmt);

	for (int vi = 0; vi < NKDUR; vi++) {
		for (int bsz = 0; bsz <= 40; bsz++) {
			const char *pf;
			char *po;
			size_t n = 0, ncopy = 0;
			long where = 0;
			int rc, canary;
			durfmt_t f;

			if (xb_skip()) {
				continue;
			}
			++*c_cases;
			pf = xa_place(&xa_fmt, fmt, flen + 1);
			xa_open(&xa_out, (size_t)bsz);
			po = (char*)xa_out.p;
			xt_fmt_lo = pf;
			xt_fmt_hi = pf + flen + 1;
			xt_fp = xt_ep = xt_in_fp = xt_in_ep = NULL;
			xr.n = 0;
			xr.total = 0;
			XG_BEGIN(rc) {
				f = determine_durfmt(pf);
				n = __strfdtdur(po, (size_t)bsz, pf, kdur[vi], f, false);
			} XG_END;
			++*c_eval;
			if (!rc) {
				ncopy = n < (size_t)bsz ? n : (size_t)bsz;
				memcpy(outcopy, po, ncopy);
				ex_outcome(ex_hash(outcopy, ncopy));
			}
			canary = xa_check(&xa_out, (size_t)bsz, &where);
			if (rc || xr.n || n > (size_t)bsz || canary) {
				xe_esc(fmt, flen, fe, sizeof(fe));
				xe_hex(fmt, flen, fh, sizeof(fh));
				snprintf(cas, sizeof(cas), "K %s %d %d", fh, vi, bsz);
				++*c_nontriv;
			}
			if (rc) {
				char site[48], tok[32];
				xt_label_last(tok, sizeof(tok));
				snprintf(key, sizeof(key), "ddiff __strfdtdur: %s in %s, last specifier %s", xg_signame(xr_sig), xs_name(xr_sig_pc, site, sizeof(site)), tok);
				report(key, (double)bsz, cas, NULL, "__strfdtdur(buf, %d, \"%s\", %s): %s", bsz, fe, kdur_name[vi], xg_signame(xr_sig));
				if (xg_must_restart()) {
					return 1;
				}
				continue;
			}
			for (int i = 0; i < xr.n; i++) {
				snprintf(key, sizeof(key), "ddiff __strfdtdur: %s in %s, specifier %s", xr.r[i].kind, xr.r[i].site, xr.r[i].tok[0] ? xr.r[i].tok : "-");
				report(key, (double)bsz, cas, NULL, "__strfdtdur(buf, %d, \"%s\", %s), format in an exact-size block, buffer of exactly %d bytes: %s, distance %ld (in %s, specifier %s); returned %zu",
				       bsz, fe, kdur_name[vi], bsz, xr.r[i].kind, xr_dist, xr.r[i].site, xr.r[i].tok[0] ? xr.r[i].tok : "-", n);
			}
			if (n > (size_t)bsz) {
				char tok[32];
				xt_label_last(tok, sizeof(tok));
				snprintf(key, sizeof(key), "ddiff __strfdtdur: return value exceeds the buffer size, last specifier %s", tok);
				report(key, (double)bsz, cas, NULL, "__strfdtdur(buf, %d, \"%s\", %s) returned %zu", bsz, fe, kdur_name[vi], n);
			}
			if (canary && xr.n == 0) {
				snprintf(key, sizeof(key), "ddiff __strfdtdur: bytes outside the output buffer changed (write not seen by the instrumentation)");
				report(key, (double)bsz, cas, NULL, "__strfdtdur(buf, %d, \"%s\", %s): byte at offset %ld changed", bsz, fe, kdur_name[vi], where);
			}
			if (replay_verbose) {
				printf("  __strfdtdur(buf[%d], \"%s\", %s) returned %zu, wrote \"%s\", %llu memory reports\n", bsz, xe_esc(fmt, flen, fe, sizeof(fe)), kdur_name[vi], n,
				       xe_esc(outcopy, ncopy, oe, sizeof(oe)), (unsigned long long)xr.total);
			}
			if (ex_want_sample()) {
				ex_sample("__strfdtdur(buf[%d], \"%s\", %s) -> %zu \"%s\"", bsz, xe_esc(fmt, flen, fe, sizeof(fe)), kdur_name[vi], n, xe_esc(outcopy, ncopy, oe, sizeof(oe)));
			}
		}
	}
	return 0;
}
static void
on_death(uint64_t idx, uint64_t sub, int st)
{
	char cas[64], detail[200];
	snprintf(cas, sizeof(cas), "X %llu %llu", (unsigned long long)idx, (unsigned long long)sub);
	snprintf(detail, sizeof(detail), "the child working on case %llu of format #%llu died: wait status 0x%x", (unsigned long long)sub, (unsigned long long)idx, st);
	xv_viol("ddiff __strfdtdur: child process died without unwinding", (double)idx, cas, NULL, detail);
}
#endif

int
main(int argc, char *argv[])
{
	EX_CTR(c_states, "states");
	EX_CTR(c_traces, "traces");
	EX_CTR(c_eval, "evaluations");
	EX_CTR(c_nontriv, "nontrivial");
	uint64_t slice = 0;
	int lenE, lenK;

	ex_init(argc, argv);
	xs_load();
	snprintf(env_locale, sizeof(env_locale), "LOCALE_FILE=%s/data/locale", ex.tree ? ex.tree : VERIF_TREE);
	env_tool[0] = env_c[0];
	env_tool[1] = env_c[1];
	env_tool[2] = env_locale;
	env_tool[3] = NULL;
	lenE = ex.thorough ? 4 : 3;
	lenK = ex.thorough ? 4 : 3;
	for (int i = 1; i + 1 < argc; i++) {
		if (!strcmp(argv[i], "--lenE")) lenE = atoi(argv[i + 1]);
		if (!strcmp(argv[i], "--lenK")) lenK = atoi(argv[i + 1]);
	}
#if defined TOOL_ddiff
	xa_init(&xa_fmt);
	xa_init(&xa_inp);
	xa_init(&xa_out);
	xa_init(&xa_aux);
	{
		struct dt_dt_s a = dt_strpdt("2012-03-04T12:34:56", NULL, NULL), b = dt_strpdt("2013-05-17T23:01:02", NULL, NULL);
		kdur[0] = dt_dtdiff(DT_DURS, a, b);
		kdur[1] = dt_dtdiff((dt_dtdurtyp_t)DT_DURD, b, a);
		kdur[2] = dt_dtdiff((dt_dtdurtyp_t)DT_DURYMD, a, b);
		kdur[3] = dt_dtdiff(DT_DURNANO, a, b);
		memset(&kdur[4], 0, sizeof(kdur[4]));
	}
#endif

	if (ex.cas) {
		int iv, sh, si, k;
		size_t n;
		replay_verbose = 1;
		if (sscanf(ex.cas, "S %d %d %d %zu", &iv, &sh, &si, &n) == 4 && iv >= 0 && iv < NINV && sh >= 0 && sh < NSHAPE && si >= 0 &&
		    si < (invs[iv].dur ? NUSPEC : NDSPEC) && n < 380) {
			shape_case(iv, sh, si, n);
		} else if (ex.cas[0] == 'H' && sscanf(ex.cas, "H %d %d", &iv, &k) == 2 && iv >= 0 && iv < NINV && k >= 0 && k < NHIGH) {
			highbyte_case(iv, k);
		} else if ((ex.cas[0] == 'N' || ex.cas[0] == 'M') && sscanf(ex.cas + 1, " %d", &k) == 1 && k >= 0 && k < NNOT) {
			notdate_case(k);
#if defined TOOL_dadd || defined TOOL_dround || defined TOOL_dseq
		} else if (ex.cas[0] == 'L' && sscanf(ex.cas, "L %d %d %d %d", &iv, &sh, &si, &k) == 4 && iv >= 0 && iv < DL_NPAT && si >= 1 && si <= 70) {
			ex.thorough = 1;
			durlist_pattern(iv, sh, si);
#endif
#if defined TOOL_dconv || defined TOOL_dadd || defined TOOL_dround || defined TOOL_dgrep
		} else if (ex.cas[0] == 'W' && sscanf(ex.cas, "W %d %d", &k, &iv) == 2 && k >= 0 && k < TF_TOTAL && iv >= 0 && iv < TF_NF * TF_NB) {
			twofmt_case(k, iv);
#endif
#if defined TOOL_dzone
		} else if (sscanf(ex.cas, "Z %zu", &n) == 1 && n >= 30 && n < 380) {
			zname_case(n);
#endif
#if defined TOOL_dgrep
		} else if (ex.cas[0] == 'E') {
			char h[64], b[32];
			uint64_t base = 0, p = 1, v = 0;
			size_t l;
			if (sscanf(ex.cas, "E %63s", h) != 1) {
				return ex_replay_result(1, "bad case");
			}
			l = xe_unhex(h, b, sizeof(b) - 1);
			for (size_t i = 0; i < l; i++, p *= NA) {
				base += p;
			}
			for (size_t i = 0; i < l; i++) {
				const char *q = memchr(SE, b[i], NA);
				v = v * NA + (uint64_t)(q ? q - SE : 0);
			}
			expr_case(base + v);
#endif
#if defined TOOL_ddiff
		} else if (ex.cas[0] == 'K' || ex.cas[0] == 'X') {
			char h[64], b[32];
			int vi, bsz;
			xg_init(1000);
			if (ex.cas[0] == 'K' && sscanf(ex.cas, "K %63s %d %d", h, &vi, &bsz) == 3 && vi >= 0 && vi < NKDUR && bsz >= 0 && bsz <= 40) {
				uint64_t base = 0, p = 1, v = 0;
				size_t l = xe_unhex(h, b, sizeof(b) - 1);
				for (size_t i = 0; i < l; i++, p *= NA) {
					base += p;
				}
				for (size_t i = 0; i < l; i++) {
					const char *q = memchr(SK, b[i], NA);
					v = v * NA + (uint64_t)(q ? q - SK : 0);
				}
				xb_skip_upto = (uint64_t)(vi * 41 + bsz);
				xb_stop_unit = 0;
				xb_stop_sub = xb_skip_upto + 2;
				{
					static struct xb_shared fake;
					xb = &fake;
				}
				strfdtdur_unit(base + v);
			} else {
				unsigned long long idx, sub;
				if (sscanf(ex.cas, "X %llu %llu", &idx, &sub) == 2) {
					xb_skip_upto = sub - 1;
					strfdtdur_unit(idx);
				}
			}
#endif
		} else {
			return ex_replay_result(1, "bad case string '%s'", ex.cas);
		}
		return ex_replay_result(replay_fails, "%d violation(s)", replay_fails);
	}

	ex_meta("rule", TOOLNAME " main() in a forked child per run (argv in exact-size heap blocks, stdin scripted, clock fixed at 2012-03-04T12:00:00Z, environment LC_ALL=C TZ=UTC). "
		"Long formats: total length %d..%d, shapes {padding+spec, spec+padding, spec repeated} x %d date / %d duration specifiers (incl. truncated ones and backslash escapes) x %d invocation "
		"classes of this tool; %d texts that are no dates (must be refused / passed through); formats with 0x80, 0xc3, 0xff or UTF-8 e-acute at positions 0..3 in every invocation class"
#if defined TOOL_dgrep
		"; every string over {%% Y m = < > & | ! ( 2 SPC} as expression"
#endif
#if defined TOOL_ddiff
		"; in-process: ddiff's __strfdtdur with every format string over {%% d m Y w H S T r 0 b -} x %d durations x every buffer size 0..40 (exact-size placement)"
#endif
#if defined TOOL_dadd || defined TOOL_dround || defined TOOL_dseq
		"; duration lists of every length 1..40 (thorough 70) over the units of c10_common.h (dadd: one unit throughout and units in rotation, signs all + or alternating; "
		"dround: d mo y h m s and the co-class forms; dseq: d b w mo y as compound increment) as one argument, one argument per duration and (dadd) one stdin line: no report, "
		"and the result equals the chain of runs with one duration each (dseq: the library adding them one at a time)"
#endif
#if defined TOOL_dconv || defined TOOL_dadd || defined TOOL_dround || defined TOOL_dgrep
		"; two input formats, one of digits only {%%Y%%m%%d %%H%%M%%S %%s %%Y%%j} and one with a separator {%%d/%%m/%%Y %%Y-%%m-%%d %%H:%%M:%%S, %%d %%b %%Y}, both orders, stream mode with and without -S "
		"(dgrep: plain, -o, -v), over lines where the separator match is preceded by 10 kinds of text the digits-only format tries (no date, too few digits, a date, nothing, ...) "
		"and followed by 4 kinds: ends within 2 s and prints at most 64 x the input"
#endif
#if defined TOOL_dzone
		"; zone names of 240..262 bytes that resolve to Europe/Berlin"
#endif
		". Oracles: no ASan/bounds report (first one is printed by the child), no fatal signal, ends within 2 s, output cap not hit. non-trivial = run with a report or signal.",
		LEN_LO, LEN_HI, NDSPEC, NUSPEC, NINV, NNOT
#if defined TOOL_ddiff
		, NKDUR
#endif
		);
	ex_meta("bound", "format lengths %d..%d (all), expression strings length <= %d, ddiff format strings length <= %d", LEN_LO, LEN_HI, lenE, lenK);

	/* slices: (invocation, shape, spec) */
	for (int iv = 0; iv < NINV && !ex_expired(); iv++) {
		int ns = invs[iv].dur ? NUSPEC : NDSPEC;
		for (int sh = 0; sh < NSHAPE; sh++) {
			for (int si = 0; si < ns; si++, slice++) {
				if (!ex_mine(slice) || ex_expired()) {
					continue;
				}
				for (size_t n = LEN_LO; n <= LEN_HI; n++) {
					shape_case(iv, sh, si, n);
				}
				++*c_states;
				++*c_traces;
			}
		}
	}
	for (int k = 0; k < NNOT && !ex_expired(); k++, slice++) {
		if (ex_mine(slice)) {
			notdate_case(k);
		}
	}
	for (int iv = 0; iv < NINV && !ex_expired(); iv++) {
		for (int k = 0; k < NHIGH; k += 8, slice++) {
			if (ex_mine(slice)) {
				for (int j = k; j < k + 8 && j < NHIGH; j++) {
					highbyte_case(iv, j);
				}
			}
		}
	}
#if defined TOOL_dadd || defined TOOL_dround || defined TOOL_dseq
	for (int pi = 0; pi < DL_NPAT && !ex_expired(); pi++) {
		for (int sv = 0; sv < (dl_pats[pi] == 10 || DL_NFORM == 1 ? 1 : 2); sv++, slice++) {
			if (ex_mine(slice)) {
				durlist_pattern(pi, sv, -1);
				++*c_states;
				++*c_traces;
			}
		}
	}
#endif
#if defined TOOL_dconv || defined TOOL_dadd || defined TOOL_dround || defined TOOL_dgrep
	for (int k = 0; k < TF_TOTAL && !ex_expired(); k += 2, slice++) {
		if (ex_mine(slice)) {
			twofmt_case(k, -1);
			twofmt_case(k + 1, -1);
		}
	}
#endif
#if defined TOOL_dzone
	for (size_t n = 240; n <= 262 && !ex_expired(); n++, slice++) {
		if (ex_mine(slice)) {
			zname_case(n);
		}
	}
#endif
#if defined TOOL_dgrep
	{
		uint64_t total = nstrings(lenE);
		for (uint64_t lo = 0; lo < total && !ex_expired(); lo += 256, slice++) {
			if (!ex_mine(slice)) {
				continue;
			}
			for (uint64_t i = lo; i < lo + 256 && i < total && !ex_expired(); i++) {
				expr_case(i);
				++*c_states;
			}
			++*c_traces;
		}
	}
#endif
#if defined TOOL_ddiff
	{
		uint64_t total = nstrings(lenK);
		xb_init();
		for (uint64_t lo = 0; lo < total && !ex.expired; lo += 512, slice++) {
			uint64_t hi = lo + 512 < total ? lo + 512 : total;
			if (!ex_mine(slice)) {
				continue;
			}
			xb_run(lo, hi, strfdtdur_unit, on_death);
			*c_states += hi - lo;
			++*c_traces;
		}
	}
#endif
	(void)c_eval;
	(void)c_nontriv;
	return ex_finish();
}
