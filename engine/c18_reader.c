/* c18_reader.c -- C18, reader level: the chunked line reader src/prchunk.c as an
 * explicit-state machine driven by every possible sequence of read() answers.
 *
 * Hook H2 instantiates the reader at tiny constants (-DVERIF_PRCHUNK_NLINES/LLEN/CHUNK),
 * so that the line-limit seam and the window seam are reached by streams of a
 * dozen bytes.  prchunk.c is compiled into this translation unit with read(),
 * mmap() and munmap() redefined: the window sits directly behind an
 * inaccessible page (an access before it faults, is noted, and the run goes
 * on) and is followed by ASan-poisoned bytes; read() is answered from a script.
 *
 * Search: for every byte stream over {x, \n, \r} up to the bound, depth-first
 * over every answer read() may give (1..min(CHUNK, rest) bytes while bytes are
 * left, 0 = end of file afterwards).  At every read() the real state
 *   (prch_ctx fields, line offsets, the whole window, read destination,
 *    unread input, number of lines delivered so far)
 * is hashed; a state already seen for this stream is not expanded again
 * (identical continuations are explored once); a state seen on the current path
 * is a cycle (non-termination).  The consumer is the tools' loop
 * (src/dconv.c main): while (fill >= 0) for (; haslinep; ) getline, then the
 * newline store line[llen] = '\n' of proc_line's copy-through.
 *
 * Oracle: the lines delivered are the stream split at \n (an unterminated
 * non-empty rest is the last line; a \r directly before the \n may be dropped
 * -- the reader's CRLF handling -- but then for every composition alike):
 * nothing lost, duplicated, split, merged or altered; every line NUL
 * terminated (the tools' parsers run on to the NUL); line pointers inside the
 * window; read() never stores outside the window; no access outside the
 * window; terminates.
 *
 * Transfer: the smallest case of every class (one per class and run, by the
 * worker that holds it) is scaled to the stock constants -- line structure
 * x 16384/lines and x-runs x 1024/LLEN, or, for the window seam, byte geometry
 * x 16 MiB/window -- and replayed through the stock dconv -S of the same build
 * through a pipe (short reads of the tiny run become piece boundaries); the
 * verdict and a literal shell command go into the record. */
#include "explore.h"
#include <stddef.h>
#include <fcntl.h>
#include <sys/mman.h>
#include <sys/wait.h>
#include <sys/stat.h>
#include <poll.h>
#include <ucontext.h>
#include <sys/ioctl.h>
#if defined __SANITIZE_ADDRESS__
# include <sanitizer/asan_interface.h>
#else
# define ASAN_POISON_MEMORY_REGION(a, n)	((void)(a), (void)(n))
# define ASAN_UNPOISON_MEMORY_REGION(a, n)	((void)(a), (void)(n))
#endif

#if !defined VERIF_PRCHUNK_NLINES || !defined VERIF_PRCHUNK_LLEN || !defined VERIF_PRCHUNK_CHUNK
# error "compile with -DVERIF_PRCHUNK_NLINES=.. -DVERIF_PRCHUNK_LLEN=.. -DVERIF_PRCHUNK_CHUNK=.."
#endif
#define TN	(VERIF_PRCHUNK_NLINES)
#define TW	(VERIF_PRCHUNK_NLINES * VERIF_PRCHUNK_LLEN)
#define TC	(VERIF_PRCHUNK_CHUNK)

#if !defined C18_QUICK_LEN
# define C18_QUICK_LEN	10
#endif
#if !defined C18_THORO_LEN
# define C18_THORO_LEN	12
#endif

static ssize_t vf_read(int fd, void *p, size_t n);
static void *vf_mmap(size_t len);
static int vf_munmap(void *p, size_t len);

#define read(fd, p, n)			vf_read(fd, p, n)
#define mmap(a, len, pr, fl, fd, off)	vf_mmap(len)
#define munmap(p, len)			vf_munmap(p, len)
#include "prchunk.c"
#undef read
#undef mmap
#undef munmap

#define MAXLEN	24
#define MAXD	(2 * MAXLEN + 16)
#define PAGE	4096

/* ---- windows: two mappings (buf, soff).  Layout of each: an inaccessible page,
 * then a page whose first TW bytes are the window and whose rest is poisoned
 * for ASan.  An access before the window faults: the handler notes it, opens
 * the page (zero filled, like the end of the neighbouring anonymous mapping in
 * the stock layout) and lets the access proceed, so the run continues and what
 * comes after it is still judged.  (An ASan report per case costs over 1 ms
 * and a third of all streams start with a newline, hence the hardware for the
 * frequent side and ASan for the rare one.) ---- */
static char *blk[2];
static int blk_open[2];
static int nblk;
static char *win;		/* = ctx->buf of the current run */

static volatile int oob_hits;
static int oob_last_write;
static long oob_last_rel;	/* address relative to the window start */
static int oob_last_size;

static void
segv_handler(int sig, siginfo_t *si, void *uc_)
{
	char *a = si->si_addr;
	for (int k = 0; k < 2; k++) {
		if (blk[k] && a >= blk[k] && a < blk[k] + PAGE && !blk_open[k]) {
			ucontext_t *uc = uc_;
			oob_hits++;
#if defined __x86_64__
			oob_last_write = (int)((uc->uc_mcontext.gregs[REG_ERR] >> 1) & 1);
#else
			(void)uc;
			oob_last_write = -1;
#endif
			oob_last_size = 1;
			oob_last_rel = (long)(a - (blk[0] + PAGE));
			blk_open[k] = 1;
			mprotect(blk[k], PAGE, PROT_READ | PROT_WRITE);
			return;
		}
	}
	ex_wd_fatal(sig);
}

static void
reset_windows(void)
{
	for (int k = 0; k < 2; k++) {
		if (blk[k] && blk_open[k]) {
			memset(blk[k], 0, PAGE);
			mprotect(blk[k], PAGE, PROT_NONE);
			blk_open[k] = 0;
		}
	}
	nblk = 0;
}

static void*
vf_mmap(size_t len)
{
	int k = nblk++;
	if (k >= 2 || len != TW || TW > PAGE) {
		fprintf(stderr, "c18_reader: unexpected mmap #%d of %zu bytes\n", k, len);
		exit(3);
	}
	if (blk[k] == NULL) {
		blk[k] = mmap(NULL, 2 * PAGE, PROT_READ | PROT_WRITE, MAP_ANONYMOUS | MAP_PRIVATE, -1, 0);
		if (blk[k] == MAP_FAILED) {
			exit(3);
		}
		mprotect(blk[k], PAGE, PROT_NONE);
		ASAN_POISON_MEMORY_REGION(blk[k] + PAGE + TW, PAGE - TW);
	}
	/* anonymous mappings are zero filled */
	memset(blk[k] + PAGE, 0, TW);
	return blk[k] + PAGE;
}

static int
vf_munmap(void *p, size_t len)
{
	(void)p;
	(void)len;
	return 0;
}

#if defined __SANITIZE_ADDRESS__
const char*
__asan_default_options(void)
{
	/* every report counts, not only the first per code address */
	return "suppress_equal_pcs=0:fast_unwind_on_fatal=1";
}
void
__asan_on_error(void)
{
	oob_hits++;
	oob_last_write = __asan_get_report_access_type();
	oob_last_size = (int)__asan_get_report_access_size();
	oob_last_rel = (long)((char*)__asan_get_report_address() - win);
}
#endif

/* ---- the stream under exploration and the search state ---- */
static const char alpha[3] = {'x', '\n', '\r'};
static const char alpha_c[3] = {'x', 'n', 'r'};

static struct {
	char in[MAXLEN + 1];
	int len;
	/* expected lines */
	int nexp;
	int exp_off[MAXLEN + 2], exp_len[MAXLEN + 2];
	int exp_var[MAXLEN + 2];	/* 0 not yet delivered, 1 as is, 2 CR dropped */
	int ends_nl;
} S;

static struct {
	int pos;			/* unread input */
	int d;				/* index of the next read() of this run */
	int fixed;			/* reads [0, fixed) are replayed */
	int choice[MAXD], nopt[MAXD], maxsz[MAXD];
	int served[MAXD];		/* sizes answered in this run */
	uint64_t path[MAXD];
	int delivered;
	int first_read;
	int nfill;
	int limit_hits;			/* fills that ended at the line limit */
	int split;			/* a short read ended strictly inside a line */
	int scripted;			/* --case: follow script, no search */
	int script[MAXD], nscript;
	int pruned;
} R;

static prch_ctx_t ctx;
static jmp_buf run_jb;

/* visited set, per stream (generation stamped) */
#define VBITS	16
static uint64_t vkey[1U << VBITS];
static uint32_t vgen[1U << VBITS];
static uint32_t gen;
static uint32_t vcount;

static int
visit(uint64_t h)
{
	uint32_t i = (uint32_t)(h >> 7) & ((1U << VBITS) - 1U);
	for (;; i = (i + 1U) & ((1U << VBITS) - 1U)) {
		if (vgen[i] != gen) {
			vgen[i] = gen;
			vkey[i] = h;
			if (++vcount > (1U << VBITS) * 3U / 4U) {
				fprintf(stderr, "c18_reader: visited table full\n");
				exit(3);
			}
			return 0;
		}
		if (vkey[i] == h) {
			return 1;
		}
	}
}

static uint64_t
state_hash(const char *dst)
{
	uint64_t h = ex_hash(win, TW);
	h = ex_hash_mix(h, ctx->bno);
	h = ex_hash_mix(h, ctx->off);
	h = ex_hash_mix(h, ctx->tot_lno);
	h = ex_hash_mix(h, ctx->cur_lno);
	h = ex_hash_mix(h, ex_hash(ctx->loff, sizeof(ctx->loff)));
	h = ex_hash_mix(h, (uint64_t)(dst - win));
	h = ex_hash_mix(h, (uint64_t)R.pos);
	h = ex_hash_mix(h, (uint64_t)R.delivered);
	h = ex_hash_mix(h, (uint64_t)R.first_read);
	return h;
}

/* ---- violations ---- */
static uint64_t *c_states, *c_trans, *c_eval, *c_traces, *c_nontriv, *c_exec, *c_pruned, *c_streams, *c_transfer;

static void
esc(char *out, size_t osz, const char *s, size_t n)
{
	size_t k = 0;
	for (size_t i = 0; i < n && k + 5 < osz; i++) {
		unsigned char c = (unsigned char)s[i];
		if (c == '\n') {
			out[k++] = '\\';
			out[k++] = 'n';
		} else if (c == '\r') {
			out[k++] = '\\';
			out[k++] = 'r';
		} else if (c == '\0') {
			out[k++] = '\\';
			out[k++] = '0';
		} else if (c < 0x20 || c >= 0x7f) {
			k += (size_t)snprintf(out + k, osz - k, "\\x%02x", c);
		} else {
			out[k++] = (char)c;
		}
	}
	out[k] = '\0';
}

static int replay_mode;
static int replay_fails;
static char replay_key[256];

/* class key: constants, kind of failure, shape of the stream/path */
static void
report_s(const char *kind, const char *shape, const char *fmt, ...)
{
	char key[256], cas[256], det[1024], es[4 * MAXLEN + 8], rd[256];
	size_t k = 0;
	va_list ap;
	const char *rk = "full";

	/* reads=full: every read() of the run so far returned the whole chunk (or all
	 * that was left): what a file or a fast pipe gives; reads=short: not so */
	{
		int pos = 0;
		for (int i = 0; i < R.d && i < MAXD; i++) {
			int rest = S.len - pos;
			if (R.served[i] < (rest < TC ? rest : TC)) {
				rk = "short";
			}
			pos += R.served[i];
		}
	}
	if (shape) {
		/* kinds with their own shape coordinates (the composition plays no part in them) */
		snprintf(key, sizeof(key), "reader %d/%d/%d %s | %s", TN, TW, TC, kind, shape);
	} else {
		snprintf(key, sizeof(key), "reader %d/%d/%d %s | end=%s limit-hits=%s reads=%s", TN, TW, TC, kind,
			 S.len == 0 ? "empty" : S.ends_nl ? "nl" : "no-nl", R.limit_hits == 0 ? "0" : "1+", rk);
	}
	/* case: stream letters, then the read() answers of this run */
	for (int i = 0; i < S.len; i++) {
		cas[k++] = S.in[i] == 'x' ? 'x' : S.in[i] == '\n' ? 'n' : 'r';
	}
	if (S.len == 0) {
		cas[k++] = '-';
	}
	rd[0] = '\0';
	for (int i = 0; i < R.d && i < MAXD; i++) {
		k += (size_t)snprintf(cas + k, sizeof(cas) - k, " %d", R.served[i]);
		snprintf(rd + strlen(rd), sizeof(rd) - strlen(rd), "%s%d", i ? "," : "", R.served[i]);
	}
	cas[k] = '\0';
	esc(es, sizeof(es), S.in, (size_t)S.len);
	k = (size_t)snprintf(det, sizeof(det), "constants (lines %d, window %d, chunk %d), stream \"%s\" (%d bytes, %d lines), read() answers [%s]: ",
			     TN, TW, TC, es, S.len, S.nexp, rd);
	va_start(ap, fmt);
	vsnprintf(det + k, sizeof(det) - k, fmt, ap);
	va_end(ap);
	if (replay_mode) {
		printf("  %s\n  class: %s\n", det, key);
		replay_fails++;
		snprintf(replay_key, sizeof(replay_key), "%s", key);
		return;
	}
	ex_viol(key, (double)S.len, cas, NULL, "%s", det);
}

#define report(kind, ...)	report_s(kind, NULL, __VA_ARGS__)

static void
path_abort(void)
{
	longjmp(run_jb, 1);
}

/* ---- scripted read() ---- */
static ssize_t
vf_read(int fd, void *p, size_t n)
{
	char *dst = p;
	int rest = S.len - R.pos;
	int d = R.d;
	int sz;

	(void)fd;
	if (d >= MAXD) {
		report("livelock", "more than %d read() calls", MAXD);
		path_abort();
	}
	if (R.scripted) {
		if (d < R.nscript) {
			sz = R.script[d];
		} else {
			sz = rest < (int)n ? rest : (int)n;
		}
		if (sz > rest) {
			sz = rest;
		}
		if (sz > (int)n) {
			sz = (int)n;
		}
		if (sz == 0 && rest) {
			sz = 1;
		}
	} else if (d < R.fixed) {
		sz = R.maxsz[d] - R.choice[d];
	} else {
		/* frontier: a state of the implementation */
		uint64_t h = state_hash(dst);
		for (int i = 0; i < d; i++) {
			if (R.path[i] == h) {
				report("livelock", "the state at read() #%d equals the state at read() #%d of the same run: the loop never ends", d + 1, i + 1);
				path_abort();
			}
		}
		if (visit(h)) {
			R.pruned = 1;
			++*c_pruned;
			path_abort();
		}
		++*c_states;
		R.path[d] = h;
		if (rest == 0) {
			R.maxsz[d] = 0;
			R.nopt[d] = 1;
		} else {
			int m = rest < (int)n ? rest : (int)n;
			R.maxsz[d] = m;
			R.nopt[d] = m;
		}
		R.choice[d] = 0;
		R.fixed = d + 1;
		sz = R.maxsz[d];
	}
	if (!R.scripted && d + 1 == R.fixed) {
		/* this (state, answer) edge is taken for the first time */
		++*c_trans;
	}
	R.served[d] = sz;
	R.d = d + 1;
	R.first_read = 0;
	if (sz > 0 && (dst < win || dst + sz > win + TW)) {
		report("window-overrun", "read() #%d would store %d bytes at window offset %ld..%ld, the window has %d bytes "
		       "(prchunk_fill hands buf+bno to read() without checking it against the window)",
		       d + 1, sz, (long)(dst - win), (long)(dst - win) + sz - 1, TW);
		path_abort();
	}
	if (sz > 0) {
		memcpy(dst, S.in + R.pos, (size_t)sz);
		R.pos += sz;
		/* a short read that ends strictly inside a line */
		if (R.pos < S.len && sz < (int)n && S.in[R.pos - 1] != '\n') {
			R.split = 1;
		}
	}
	return sz;
}

/* ---- the oracle for one delivered line ---- */
static void
judge_line(const char *line, size_t llen)
{
	char el[4 * MAXLEN + 8], gl[4 * MAXLEN + 8];
	int i = R.delivered;

	if (i >= S.nexp) {
		esc(gl, sizeof(gl), line, llen);
		report("extra-line", "line #%d delivered (\"%s\") but the stream has only %d lines", i + 1, gl, S.nexp);
		path_abort();
	}
	const char *e = S.in + S.exp_off[i];
	size_t elen = (size_t)S.exp_len[i];
	int var = 0;
	if (llen == elen && !memcmp(line, e, elen)) {
		var = 1;
	} else if (elen && e[elen - 1] == '\r' && llen == elen - 1 && !memcmp(line, e, llen)) {
		var = 2;
	}
	if (var) {
		if (S.exp_var[i] == 0) {
			S.exp_var[i] = var;
		} else if (S.exp_var[i] != var) {
			report("composition-dependent", "line #%d was delivered %s the \\r for another sequence of read() answers and %s it now",
			       i + 1, S.exp_var[i] == 2 ? "without" : "with", var == 2 ? "without" : "with");
			path_abort();
		}
		R.delivered++;
		return;
	}
	esc(gl, sizeof(gl), line, llen < 3 * MAXLEN ? llen : 3 * MAXLEN);
	esc(el, sizeof(el), e, elen);
	if (i > 0 && llen == (size_t)S.exp_len[i - 1] && !memcmp(line, S.in + S.exp_off[i - 1], llen)) {
		report("duplicated", "line #%d delivered again (\"%s\") where line #%d \"%s\" is due", i, gl, i + 1, el);
	} else if (llen < elen && !memcmp(line, e, llen)) {
		report("split", "line #%d \"%s\" delivered as \"%s\" (cut short)", i + 1, el, gl);
	} else if (llen > elen && !memcmp(line, e, elen)) {
		report("merged", "line #%d \"%s\" delivered as \"%s\" (runs on into what follows)", i + 1, el, gl);
	} else {
		int j;
		for (j = i + 1; j < S.nexp; j++) {
			if (llen == (size_t)S.exp_len[j] && !memcmp(line, S.in + S.exp_off[j], llen)) {
				break;
			}
		}
		if (j < S.nexp && llen) {
			report("skipped", "line #%d \"%s\" is due, line #%d \"%s\" delivered: %d line(s) lost in between", i + 1, el, j + 1, gl, j - i);
		} else {
			report("altered", "line #%d \"%s\" delivered as \"%s\"", i + 1, el, gl);
		}
	}
	path_abort();
}

static void
report_oob(void)
{
	char kind[96];
	snprintf(kind, sizeof(kind), "oob-%s %s the window", oob_last_write ? "write" : "read",
		 oob_last_rel < 0 ? "before" : oob_last_rel >= TW ? "behind" : "near");
	report_s(kind, R.nfill == 0 ? "in the first fill" : "in a later fill",
		 "%s of %d byte(s) at window offset %ld during fill #%d (the window is [0,%d))",
	       oob_last_write ? "write" : "read", oob_last_size, oob_last_rel, R.nfill + 1, TW);
}

/* one run of the tools' loop; returns 1 if it ran to the end */
static int
run_once(void)
{
	volatile int complete = 0;
	int hits0 = oob_hits;

	if (ctx) {
		memset(ctx, 0, sizeof(*ctx));
	}
	reset_windows();
	R.pos = 0;
	R.d = 0;
	R.delivered = 0;
	R.nfill = 0;
	R.limit_hits = 0;
	R.split = 0;
	R.pruned = 0;
	++*c_exec;
	if (setjmp(run_jb) == 0) {
		int rc;
		EX_GUARD_BEGIN(rc);
		ctx = init_prchunk(0);
		win = ctx->buf;
		for (;;) {
			int frc;
			R.first_read = 1;
			++*c_eval;
			frc = prchunk_fill(ctx);
			if (oob_hits != hits0) {
				hits0 = oob_hits;
				report_oob();
			}
			if (frc < 0) {
				break;
			}
			if (ctx->tot_lno >= TN) {
				R.limit_hits++;
			}
			if (++R.nfill > 4 * MAXLEN) {
				report("livelock", "more than %d fills", 4 * MAXLEN);
				path_abort();
			}
			while (prchunk_haslinep(ctx)) {
				char *line = NULL;
				size_t llen;
				++*c_eval;
				llen = prchunk_getline(ctx, &line);
				if (line == NULL || line < win || line > win + TW || llen > (size_t)TW || line + llen > win + TW) {
					report("wild-line", "getline #%d returned pointer at window offset %ld, length %zu (fill delivered %u lines, cur_lno %u): outside the window",
					       R.delivered + 1, line ? (long)(line - win) : -1L, llen, ctx->tot_lno, ctx->cur_lno);
					path_abort();
				}
				judge_line(line, llen);
				/* the tools' parsers (dt_io_find_strpdt2) run on to a NUL */
				if (line + llen < win + TW && line[llen] != '\0') {
					char sh2[64];
					snprintf(sh2, sizeof(sh2), "fill=%s", R.nfill == 1 ? "first" : "later");
					report_s("line not NUL-terminated", sh2, "line #%d is followed by byte 0x%02x instead of NUL (the tools' parsers read on past the line)",
						 R.delivered, (unsigned char)line[llen]);
				}
				/* the tools' copy-through: line[llen] = '\n' (dconv.c proc_line) */
				if (line + llen == win + TW) {
					report("newline-store behind the window", "the unterminated line ends at the end of the window; the tools' line[llen] = '\\n' stores behind it");
					path_abort();
				}
				line[llen] = '\n';
			}
		}
		if (R.delivered < S.nexp) {
			char el[4 * MAXLEN + 8];
			esc(el, sizeof(el), S.in + S.exp_off[R.delivered], (size_t)S.exp_len[R.delivered]);
			char shp[96];
			snprintf(shp, sizeof(shp), "end=%s limit-hits=%s lost=%s", S.ends_nl ? "nl" : "no-nl", R.limit_hits ? "1+" : "0",
				 S.nexp - R.delivered == 1 && !S.ends_nl ? "unterminated-rest" : S.ends_nl ? "lines" : "lines+unterminated-rest");
			report_s("lost-tail", shp, "prchunk_fill returned -1 after %d of %d lines; first lost line #%d \"%s\" (%d lost)",
				 R.delivered, S.nexp, R.delivered + 1, el, S.nexp - R.delivered);
		} else {
			complete = 1;
		}
		EX_GUARD_END;
		if (rc == 1) {
			report("hang", "no progress inside the reader");
		} else if (rc == 2) {
			report("crash", "fatal signal inside the reader (SIGSEGV/SIGBUS/SIGFPE/SIGABRT, or SIGILL = the bounds trap of an array index)");
		}
	}
	ex_armed = 0;
	if (oob_hits != hits0) {
		/* the run was cut (state seen before) after the access */
		report_oob();
	}
	return complete;
}

static void
set_stream(const char *s, int len)
{
	int o = 0;
	memcpy(S.in, s, (size_t)len);
	S.in[len] = '\0';
	S.len = len;
	S.nexp = 0;
	for (int i = 0; i < len; i++) {
		if (s[i] == '\n') {
			S.exp_off[S.nexp] = o;
			S.exp_len[S.nexp] = i - o;
			S.exp_var[S.nexp] = 0;
			S.nexp++;
			o = i + 1;
		}
	}
	if (o < len) {
		S.exp_off[S.nexp] = o;
		S.exp_len[S.nexp] = len - o;
		S.exp_var[S.nexp] = 0;
		S.nexp++;
	}
	S.ends_nl = len > 0 && s[len - 1] == '\n';
}

/* all sequences of read() answers for the current stream */
static void
explore_stream(void)
{
	gen++;
	vcount = 0;
	R.fixed = 0;
	R.scripted = 0;
	++*c_streams;
	for (;;) {
		int done = run_once();
		if (done) {
			++*c_traces;
		}
		if (R.split) {
			++*c_nontriv;
		}
		if (done || R.pruned) {
			/* outcome = what was delivered, how */
			uint64_t h = ex_hash(S.in, (size_t)S.len);
			h = ex_hash_mix(h, (uint64_t)R.delivered);
			h = ex_hash_mix(h, (uint64_t)R.d);
			ex_outcome(h);
		}
		/* next sibling, deepest first */
		while (R.fixed > 0 && R.choice[R.fixed - 1] + 1 >= R.nopt[R.fixed - 1]) {
			R.fixed--;
		}
		if (R.fixed == 0) {
			break;
		}
		R.choice[R.fixed - 1]++;
	}
}

/* ---- transfer to the stock constants ---- */
#define SN	16384
#define SW	(16384L * 1024L)
#define SC	4096

struct img {
	char *d;
	size_t len, cap;
	char pl[3072];		/* perl expression that yields the image */
	size_t plk;
};

static void
img_put(struct img *m, const char *p, size_t n, long reps)
{
	if (m->len + n * (size_t)reps + 1 > m->cap) {
		m->cap = (m->len + n * (size_t)reps + 1) * 2;
		m->d = realloc(m->d, m->cap);
	}
	for (long r = 0; r < reps; r++) {
		memcpy(m->d + m->len, p, n);
		m->len += n;
	}
}

static void
img_pl(struct img *m, const char *fmt, ...)
{
	va_list ap;
	va_start(ap, fmt);
	if (m->plk < sizeof(m->pl) - 1) {
		m->plk += (size_t)vsnprintf(m->pl + m->plk, sizeof(m->pl) - m->plk, fmt, ap);
		if (m->plk >= sizeof(m->pl)) {
			m->plk = sizeof(m->pl) - 1;
		}
	}
	va_end(ap);
}

/* SHAPE scaling (line structure): both constant sets satisfy window = lines x
 * LLEN, so tiny line i becomes the stock lines [i*SN/TN, (i+1)*SN/TN), each
 * with the content of line i in which every run of x is stretched by 1024/LLEN
 * (an empty line stays empty, a \r stays one \r); the unterminated rest stays
 * one unterminated line.  N tiny lines become 16384 stock lines.
 * map[p] = stock offset of tiny offset p (inside a line: in its last copy). */
static void
image_shape(struct img *m, long map[])
{
	int nterm = S.nexp - (S.len && !S.ends_nl ? 1 : 0);
	const long xs = 1024 / VERIF_PRCHUNK_LLEN;
	char *lb = malloc((size_t)(MAXLEN * xs + 2));

	for (int i = 0; i < S.nexp; i++) {
		const char *e = S.in + S.exp_off[i];
		int elen = S.exp_len[i];
		long reps = i < nterm ? ((long)(i + 1) * SN / TN - (long)i * SN / TN) : 1;
		size_t n = 0;
		int run = 0;
		long col[MAXLEN + 2];

		img_pl(m, "%s(", i ? ", " : "");
		for (int j = 0; j <= elen; j++) {
			col[j] = (long)n + run * xs;
			if (j < elen && e[j] == 'x') {
				run++;
				continue;
			}
			if (run) {
				memset(lb + n, 'x', (size_t)(run * xs));
				n += (size_t)(run * xs);
				img_pl(m, "\"x\"x%ld . ", run * xs);
				run = 0;
			}
			if (j < elen) {
				lb[n++] = e[j];
				img_pl(m, "\"\\r\" . ");
			}
		}
		if (i < nterm) {
			lb[n++] = '\n';
			img_pl(m, "\"\\n\")x%ld", reps);
		} else {
			img_pl(m, "\"\")");
		}
		map[S.exp_off[i]] = (long)m->len;
		for (int j = 1; j <= elen; j++) {
			map[S.exp_off[i] + j] = (long)m->len + (reps - 1) * (long)n + col[j];
		}
		img_put(m, lb, n, reps);
	}
	map[S.len] = (long)m->len;
	free(lb);
}

/* BYTES scaling (byte geometry, for the window seam): tiny offset p becomes
 * stock offset p*16MiB/window, the region of tiny line i is cut into the stock
 * lines [i*SN/TN, (i+1)*SN/TN) of equal length, filled with x (a \r before the
 * \n is kept).  W tiny bytes become exactly 16 MiB, N tiny lines 16384 lines.
 * A tiny offset that is not a multiple of the chunk keeps its misalignment:
 * map[p] = f(p - p%chunk) + p%chunk. */
static void
image_bytes(struct img *m, long map[])
{
	int nterm = S.nexp - (S.len && !S.ends_nl ? 1 : 0);
	char *lb;
#define FPOS(p)	((long)(((__int128)(p) * SW) / TW))

	for (int i = 0; i < S.nexp; i++) {
		int a = S.exp_off[i];
		int elen = S.exp_len[i];
		long reps = i < nterm ? ((long)(i + 1) * SN / TN - (long)i * SN / TN) : 1;
		long R = FPOS(i < nterm ? a + elen + 1 : a + elen) - FPOS(a);
		long q = R / reps, rem = R % reps;
		int cr = i < nterm && elen && S.in[a + elen - 1] == '\r';

		lb = malloc((size_t)q + 2);
		memset(lb, 'x', (size_t)q + 1);
		img_pl(m, "%s", i ? ", " : "");
		for (int pass = 0; pass < 2; pass++) {
			/* the first REM lines are one byte longer */
			long ll = pass == 0 ? q + 1 : q, cnt = pass == 0 ? rem : reps - rem;
			if (cnt == 0) {
				continue;
			}
			if (i < nterm) {
				lb[ll - 1] = '\n';
				if (cr && ll >= 2) {
					lb[ll - 2] = '\r';
				}
				img_pl(m, "%s(\"x\"x%ld . \"%s\\n\")x%ld", pass && rem ? ", " : "", ll - 1 - (cr && ll >= 2), cr && ll >= 2 ? "\\r" : "", cnt);
			} else {
				img_pl(m, "%s(\"x\"x%ld)x%ld", pass && rem ? ", " : "", ll, cnt);
			}
			img_put(m, lb, (size_t)ll, cnt);
			lb[ll - 1] = 'x';
			if (ll >= 2) {
				lb[ll - 2] = 'x';
			}
		}
		free(lb);
	}
	for (int p = 0; p <= S.len; p++) {
		map[p] = FPOS(p - p % TC) + p % TC;
		if (map[p] > (long)m->len) {
			map[p] = (long)m->len;
		}
	}
}

#include "c18_feed.h"

/* scale the case (stream S, read() answers ANS[0..NANS)) to the stock constants and
 * run the stock dconv -S of the same build on it through a pipe; read()
 * boundaries of the tiny run that are not chunk aligned become piece
 * boundaries.  Returns 0 agree, 1 differs, -1 no run. */
static int
transfer_case(const char *key, const int *ans, int nans, char *verdict, size_t vsz, char *cmd, size_t csz)
{
	const char *rundir = getenv("VERIF_RUNDIR");
	char fout[512], exe[1024], cuttxt[512];
	struct img m;
	long map[MAXLEN + 2];
	size_t cuts[MAXD];
	int ncuts = 0;
	struct feed_res fr;
	long at, osz;
	int differs;
	int memkind = strstr(key, " oob-") != NULL;
	int bytes = strstr(key, "newline-store behind the window") != NULL || strstr(key, "window-overrun") != NULL;
	const char *argv[4];

	if (rundir == NULL) {
		rundir = "/tmp";
	}
	if (ex.tree == NULL) {
		snprintf(verdict, vsz, "not transferred (no --tree)");
		return -1;
	}
	memset(&m, 0, sizeof(m));
	if (bytes) {
		image_bytes(&m, map);
	} else {
		image_shape(&m, map);
	}
	if (m.d == NULL) {
		m.d = malloc(1);
	}
	/* piece boundaries: where the tiny run had a short read */
	cuttxt[0] = '\0';
	{
		int pos = 0, shortseen = 0;
		for (int i = 0; i < nans; i++) {
			int rest = S.len - pos;
			int full = rest < TC ? rest : TC;
			if (ans[i] <= 0) {
				break;
			}
			if (ans[i] < full) {
				shortseen = 1;
			}
			pos += ans[i];
			if (shortseen && pos < S.len && map[pos] > 0 && (size_t)map[pos] < m.len &&
			    (ncuts == 0 || cuts[ncuts - 1] < (size_t)map[pos])) {
				cuts[ncuts++] = (size_t)map[pos];
				snprintf(cuttxt + strlen(cuttxt), sizeof(cuttxt) - strlen(cuttxt), "%s%ld", cuttxt[0] ? "," : "", map[pos]);
			}
		}
		if (!shortseen) {
			ncuts = 0;
			cuttxt[0] = '\0';
		}
	}
	snprintf(fout, sizeof(fout), "%s/c18tr.%d.%d.out", rundir, (int)getpid(), TN * 100 + TC);
	snprintf(exe, sizeof(exe), "%s/src/dconv", ex.tree);
	argv[0] = exe;
	argv[1] = "-S";
	argv[2] = NULL;
	if (ncuts) {
		snprintf(cmd, csz, "perl -e '$|=1; $d=join(\"\",%s); $o=0; for $c (%s,length $d) { print substr($d,$o,$c-$o); $o=$c; select(undef,undef,undef,0.5) }' "
			 "| dconv -S | cmp - <(perl -e 'print(%s)')", m.pl, cuttxt, m.pl);
	} else {
		snprintf(cmd, csz, "perl -e 'print(%s)' | dconv -S | cmp - <(perl -e 'print(%s)')", m.pl, m.pl);
	}
	++*c_transfer;
	if (feed_run(argv, m.d, m.len, cuts, ncuts, fout, 60, &fr) < 0) {
		snprintf(verdict, vsz, "not transferred (cannot run %s)", exe);
		free(m.d);
		return -1;
	}
	differs = feed_cmp_passthrough(m.d, m.len, fout, &at, &osz);
	unlink(fout);
	{
		char how[1024];
		long line = 1;
		for (long i = 0; i < at && (size_t)i < m.len; i++) {
			line += m.d[i] == '\n';
		}
		snprintf(how, sizeof(how), "scaled (%s) to the stock constants: %zu bytes%s%s%s", bytes ? "byte geometry x 16MiB/window" : "line structure x 16384/lines, x-runs x 1024/LLEN",
			 m.len, ncuts ? ", delivered through a pipe in pieces ending at offsets " : ", delivered in full 4096-byte reads", cuttxt, ncuts ? " (a short read each)" : "");
		if (fr.signaled || (fr.exited && fr.status >= 126)) {
			snprintf(verdict, vsz, "TRANSFERS: %s: the stock dconv -S was %s after %ld output bytes", how, feed_ending(&fr), osz);
			differs = 1;
		} else if (differs) {
			snprintf(verdict, vsz, "TRANSFERS: %s: the stock dconv -S (%s) printed %ld bytes, departing from the input at byte %ld (line %ld)",
				 how, feed_ending(&fr), osz, at, line);
		} else {
			snprintf(verdict, vsz, "%s: the stock dconv -S prints output = input%s", how,
				 memkind ? " (an out-of-bounds read of this kind does not show in the output: in the stock layout the byte before the window belongs to the neighbouring mapping)"
				 : ": does NOT show at the stock constants as scaled");
		}
	}
	free(m.d);
	return differs;
}

static int
parse_case(const char *cas, int ans[], int *nans)
{
	char s[MAXLEN + 1];
	int len = 0;
	const char *p = cas;

	for (; *p && *p != ' ' && len < MAXLEN; p++) {
		if (*p == '-') {
			continue;
		}
		s[len++] = *p == 'x' ? 'x' : *p == 'n' ? '\n' : '\r';
	}
	set_stream(s, len);
	*nans = 0;
	while (*p) {
		char *ep;
		long v = strtol(p, &ep, 10);
		if (ep == p) {
			break;
		}
		if (*nans < MAXD) {
			ans[(*nans)++] = (int)v;
		}
		p = ep;
	}
	return len;
}

/* One transfer per class and run, not one per worker: every worker publishes
 * (ord, key) of its classes in the run directory, waits for the others, and
 * transfers only the classes of which it holds the smallest example (smallest
 * ord, then lowest worker: the record the driver keeps when it merges). */
static int
owner_p(const char *key, double ord)
{
	const char *rundir = getenv("VERIF_RUNDIR");
	static char *tab[64];
	static int loaded;
	char fn[512], line[512];

	if (rundir == NULL || ex.nworkers <= 1 || ex.nworkers > 64) {
		return 1;
	}
	if (!loaded) {
		FILE *f;
		double t0 = ex_now();
		snprintf(fn, sizeof(fn), "%s/c18cls.%d.%d.%d.tmp", rundir, TN, TC, ex.worker);
		if ((f = fopen(fn, "w")) == NULL) {
			return 1;
		}
		for (int i = 0; i < ex.nviol; i++) {
			fprintf(f, "%.17g\t%s\n", ex.viol[i].ord, ex.viol[i].key);
		}
		fclose(f);
		snprintf(line, sizeof(line), "%s/c18cls.%d.%d.%d", rundir, TN, TC, ex.worker);
		rename(fn, line);
		for (int w = 0; w < ex.nworkers; w++) {
			snprintf(fn, sizeof(fn), "%s/c18cls.%d.%d.%d", rundir, TN, TC, w);
			while ((f = fopen(fn, "r")) == NULL) {
				struct timespec ts = {0, 5000000};
				if (ex_now() - t0 > 600) {
					/* a worker went missing: everybody transfers its own */
					return 1;
				}
				nanosleep(&ts, NULL);
			}
			{
				size_t cap = 1 << 16, n;
				tab[w] = malloc(cap);
				n = fread(tab[w], 1, cap - 1, f);
				tab[w][n] = '\0';
			}
			fclose(f);
		}
		loaded = 1;
	}
	for (int w = 0; w < ex.nworkers; w++) {
		for (char *q = tab[w]; q && *q; ) {
			char *nl = strchr(q, '\n'), *tb = strchr(q, '\t');
			size_t kl;
			if (nl == NULL || tb == NULL || tb > nl) {
				break;
			}
			kl = (size_t)(nl - tb - 1);
			if (kl == strlen(key) && !memcmp(tb + 1, key, kl)) {
				double o = atof(q);
				if (o < ord || (o == ord && w < ex.worker)) {
					return 0;
				}
			}
			q = nl + 1;
		}
	}
	return 1;
}

static void
transfer_all(void)
{
	for (int i = 0; i < ex.nviol; i++) {
		struct ex_viol_s *v = ex.viol + i;
		char verdict[2048], cmd[8192], *nd;
		int ans[MAXD], nans;

		if (!owner_p(v->key, v->ord)) {
			continue;
		}
		parse_case(v->cas, ans, &nans);
		cmd[0] = '\0';
		transfer_case(v->key, ans, nans, verdict, sizeof(verdict), cmd, sizeof(cmd));
		nd = malloc(strlen(v->detail) + strlen(verdict) + 16);
		sprintf(nd, "%s || %s", v->detail, verdict);
		free(v->detail);
		v->detail = nd;
		if (cmd[0]) {
			free(v->cmd);
			v->cmd = strdup(cmd);
		}
	}
}

int
main(int argc, char *argv[])
{
	int maxlen;

	c_states = ex_ctr("states");
	c_trans = ex_ctr("transitions");
	c_eval = ex_ctr("evaluations");
	c_traces = ex_ctr("traces");
	c_nontriv = ex_ctr("nontrivial");
	c_exec = ex_ctr("executions");
	c_pruned = ex_ctr("paths_merged_into_visited_state");
	c_streams = ex_ctr("streams");
	c_transfer = ex_ctr("stock_size_transfers");
	ex_init(argc, argv);
	ex_wd_init(2000);
	{
		struct sigaction sa;
		memset(&sa, 0, sizeof(sa));
		sa.sa_sigaction = segv_handler;
		sa.sa_flags = SA_SIGINFO | SA_NODEFER;
		sigaction(SIGSEGV, &sa, NULL);
		/* the trap of -fsanitize=bounds (an index beyond loff[]) is an observation of the case too */
		memset(&sa, 0, sizeof(sa));
		sa.sa_handler = ex_wd_fatal;
		sa.sa_flags = SA_NODEFER;
		sigaction(SIGILL, &sa, NULL);
	}
	maxlen = ex.thorough ? C18_THORO_LEN : C18_QUICK_LEN;

	if (ex.cas) {
		/* "<letters> <answer> <answer> ..." */
		char verdict[2048], cmd[8192];
		int done;

		parse_case(ex.cas, R.script, &R.nscript);
		R.scripted = 1;
		replay_mode = 1;
		done = run_once();
		printf("  run %s; %d of %d lines delivered\n", done ? "complete" : "ended early", R.delivered, S.nexp);
		transfer_case(replay_key, R.script, R.nscript, verdict, sizeof(verdict), cmd, sizeof(cmd));
		printf("  transfer: %s\n  cmd: %s\n", verdict, cmd);
		return ex_replay_result(replay_fails != 0, "%s", replay_fails ? replay_key : "no violation");
	}

	ex_meta("rule", "src/prchunk.c instantiated at (max lines %d, window %d bytes, chunk %d) by hook H2, read()/mmap() redefined (window behind an inaccessible page and "
		"followed by ASan-poisoned bytes); every byte stream over {x,\\n,\\r} up to the bound x EVERY sequence of read() answers (1..min(chunk,rest) bytes, then 0 = EOF); "
		"depth-first with hashing of (prch_ctx fields, line offsets, window bytes, read destination, unread input, lines delivered) at each read(): a state "
		"seen before for the stream is not expanded again, a state seen on the same path is a cycle; consumer = the tools' loop fill/haslinep/getline plus "
		"the newline store line[llen]='\\n' of the copy-through; oracle: delivered lines == stream split at \\n (unterminated non-empty rest is the last "
		"line; a \\r before \\n may be dropped but alike for all compositions), line pointers inside the window, read() stores inside the window, no ASan "
		"report, termination. states = hashed implementation states; transitions = (state, read() answer) edges executed; traces = runs to the end of "
		"input with every delivered line compared; non-trivial = paths with a short read ending strictly inside a line. read() errors (-1/EINTR) are "
		"not enumerated: the tools install no signal handlers, the kernel restarts the call. The smallest case of every class is scaled to the stock "
		"constants and replayed through the stock dconv -S (counter stock_size_transfers).", TN, TW, TC);
	ex_meta("bound", "all streams of length 0..%d over 3 letters (%s tier), all compositions, constants %d/%d/%d", maxlen, ex.thorough ? "thorough" : "quick", TN, TW, TC);

	{
		uint64_t id = 0;
		char s[MAXLEN + 1];
		for (int len = 0; len <= maxlen && !ex_expired(); len++) {
			uint64_t n = 1;
			for (int i = 0; i < len; i++) {
				n *= 3U;
			}
			for (uint64_t v = 0; v < n; v++, id++) {
				uint64_t t = v;
				if (!ex_mine(id)) {
					continue;
				}
				if (ex.deadline > 0 && (id & 0xff) == 0 && ex_now() > ex.deadline) {
					ex.expired = 1;
					break;
				}
				/* most significant letter first: x < \n < \r */
				for (int i = len - 1; i >= 0; i--) {
					s[i] = alpha[t % 3U];
					t /= 3U;
				}
				set_stream(s, len);
				explore_stream();
				if (ex_want_sample()) {
					char es[4 * MAXLEN + 8];
					esc(es, sizeof(es), S.in, (size_t)S.len);
					ex_sample("stream \"%s\" (%d lines) at constants %d/%d/%d: %u states, last run's read() answers end with %d",
						  es, S.nexp, TN, TW, TC, vcount, R.d ? R.served[R.d - 1] : -1);
				}
			}
		}
	}
	(void)alpha_c;
	if (!getenv("C18_NO_TRANSFER")) {
		transfer_all();
	}
	return ex_finish();
}
