/* c19_mapsrc.c -- C19, zone-map SOURCES: for every key of a source, looking the key up in the
 * compiled map returns the zone it was mapped to -- at the seams of the compiler's buffers and of
 * the record's field widths: zone-name pool around 64 KiB (16-bit offset), long zone names (pool
 * growth), long keys, keys with bytes >= 0x80 (signedness of the comparison), source with and
 * without a final newline.  The repository's own compiler (lib/tzmap.c, -DSTANDALONE, main renamed)
 * runs in a forked child under AddressSanitizer; so do the lookups (c19_common.h). */
#if defined HAVE_CONFIG_H
# include "config.h"
#endif
#include <stdio.h>
#include <stdlib.h>
#include <stdint.h>
#include <string.h>
#include <unistd.h>
#include <fcntl.h>
#include <errno.h>
#include <stdarg.h>
#include <stdbool.h>
#include <stddef.h>
#include <sys/stat.h>
#include <sys/mman.h>

static void*
verif_mmap(void *addr, size_t len, int prot, int flags, int fd, off_t off)
{
	unsigned char *p = malloc(len ? len : 1);
	size_t got = 0;
	(void)addr, (void)prot, (void)flags;
	while (p && got < len) {
		ssize_t n = pread(fd, p + got, len - got, off + (off_t)got);
		if (n <= 0) {
			break;
		}
		got += (size_t)n;
	}
	if (p == NULL || got < len) {
		free(p);
		return MAP_FAILED;
	}
	return p;
}
static int
verif_munmap(void *p, size_t len)
{
	(void)len;
	free(p);
	return 0;
}
#define mmap	verif_mmap
#define munmap	verif_munmap
#define main	tzmap_main
#if !defined STANDALONE
# define STANDALONE
#endif
#include "tzmap.c"
#undef main
#undef mmap
#undef munmap

#include "explore.h"
#include "c19_common.h"

/* the source in flight */
#define MAXENT	8192
static char *skey[MAXENT], *szone[MAXENT];
static int nent;
static int final_nl;
static char fam;		/* P pool size, Z zone-name length, K key length, H high-bit keys */
static long fam_ord;		/* the ordered coordinate of the family */
static char srcpath[4300], srcpath2[4300], srcpath3[4300], outpath[4300];
static int split_at2;		/* > 0: a third FILE argument starts at this line */
static int split_at;		/* > 0: the first SPLIT_AT lines go to one file, the rest to a second FILE argument */
static int ascending_p;	/* keys strictly ascending byte-wise */
static int g_verbose;
static uint8_t *cimg;
static size_t clen;

static void
src_clear(void)
{
	for (int i = 0; i < nent; i++) {
		free(skey[i]);
		free(szone[i]);
	}
	nent = 0;
}

static void
src_add(const char *k, const char *z)
{
	skey[nent] = strdup(k);
	szone[nent] = strdup(z);
	nent++;
}

static char*
rep(char c, int n)
{
	static char buf[2][1024];
	static int w;
	char *b = buf[w ^= 1];
	memset(b, c, (size_t)n);
	b[n] = '\0';
	return b;
}

/* ---- the families; each returns 0 when IDX is past its end ---- */
static const char *const hkeys[7] = {"AAA", "ZZZ", "Z\xc3\xbcrich", "\x80", "\xc3\x96lz", "\xc3\xbc", "\xff\xff"};	/* ascending as unsigned bytes */
static const char *const hzones[7] = {"Europe/Berlin", "Asia/Tokyo", "Europe/Zurich", "Etc/UTC", "Europe/Vienna", "Europe/Paris", "America/New_York"};

static int
mk_family(char f, long idx)
{
	char k[64], z[128];

	src_clear();
	split_at = 0;
	split_at2 = 0;
	fam = f;
	final_nl = !(idx & 1);
	idx >>= 1;
	switch (f) {
	case 'P': {
		/* zone-name pool around and beyond 64 KiB: N distinct zone names of ZL bytes */
		static const int zls[2] = {19, 31};
		static const int dn[6] = {-1, 0, 1, 2, 50, 1000000};
		int zl, n0, n;
		if (idx >= 12) {
			return 0;
		}
		zl = zls[idx / 6];
		n0 = 65536 / (zl + 1);
		n = dn[idx % 6] == 1000000 ? 2 * n0 + 3 : n0 + dn[idx % 6];
		for (int i = 0; i < n && i < MAXENT; i++) {
			snprintf(k, sizeof(k), "K%05d", i);
			snprintf(z, sizeof(z), "Zone/N%05d_%s", i, "abcdefghijklmnopqrstuvwxyz");
			z[zl] = '\0';
			src_add(k, z);
		}
		fam_ord = (long)n * (zl + 1);
		return 1;
	}
	case 'Z': {
		/* a zone name of L bytes as first, second or third of three */
		int L = (int)(idx / 3) + 1, pos = (int)(idx % 3);
		if (L > 300) {
			return 0;
		}
		for (int i = 0; i < 3; i++) {
			snprintf(k, sizeof(k), "%c%c%c", 'A' + i, 'A' + i, 'A' + i);
			src_add(k, i == pos ? rep('z', L) : i == 0 ? "Europe/Berlin" : i == 1 ? "Asia/Tokyo" : "America/New_York");
		}
		fam_ord = L;
		return 1;
	}
	case 'K': {
		/* a key of L bytes between two short ones, or two of them */
		int L = (int)(idx / 2) + 1, two = (int)(idx % 2);
		if (L > 255) {
			/* longer keys are dropped by the compiler, as `tzmap check' documents */
			return 0;
		}
		src_add("A", "Europe/Berlin");
		src_add(rep('M', L), "Asia/Tokyo");
		if (two) {
			src_add(rep('N', L), "Etc/UTC");
		}
		src_add("Z", "America/New_York");
		fam_ord = L;
		return 1;
	}
	case 'U': {
		/* every sequence of 2..3 keys over {A AA B C} (with repetition): most are not strictly ascending */
		static const char *const uk[4] = {"A", "AA", "B", "C"};
		static const char *const uz[3] = {"Europe/Berlin", "Asia/Tokyo", "America/New_York"};
		int n = idx < 16 ? 2 : 3, c = (int)(idx < 16 ? idx : idx - 16);
		if (idx >= 16 + 64) {
			return 0;
		}
		for (int i = 0; i < n; i++) {
			int k = (c >> (2 * (n - 1 - i))) & 3;
			src_add(uk[k], uz[i]);
		}
		fam_ord = idx;
		return 1;
	}
	case 'F': {
		/* a sorted source of 4 lines given as TWO file arguments, split after line 1, 2 or 3 */
		if (idx >= 3) {
			return 0;
		}
		src_add("A", "Europe/Berlin");
		src_add("B", "Asia/Tokyo");
		src_add("C", "America/New_York");
		src_add("D", "Etc/UTC");
		split_at = (int)idx + 1;
		fam_ord = split_at;
		return 1;
	}
	case 'G': {
		/* two and three FILEs, each ascending on its own ({A B}, {C D}, {E F}), in every order of the files */
		static const char *const gk[6] = {"A", "B", "C", "D", "E", "F"};
		static const char *const gz[6] = {"Europe/Berlin", "Asia/Tokyo", "America/New_York", "Etc/UTC", "Asia/Kolkata", "Europe/Paris"};
		static const int perm2[6][2] = {{0, 1}, {0, 2}, {1, 0}, {1, 2}, {2, 0}, {2, 1}};
		static const int perm3[6][3] = {{0, 1, 2}, {0, 2, 1}, {1, 0, 2}, {1, 2, 0}, {2, 0, 1}, {2, 1, 0}};
		int nf = idx < 6 ? 2 : 3;
		if (idx >= 12) {
			return 0;
		}
		for (int f = 0; f < nf; f++) {
			int g = nf == 2 ? perm2[idx][f] : perm3[idx - 6][f];
			src_add(gk[2 * g], gz[2 * g]);
			src_add(gk[2 * g + 1], gz[2 * g + 1]);
		}
		split_at = 2;
		split_at2 = nf == 3 ? 4 : 0;
		fam_ord = idx;
		return 1;
	}
	case 'H': {
		/* every sorted set of <= 4 of the 7 keys with bytes >= 0x80 among them */
		int cnt = 0;
		for (int m = 0; m < 128; m++) {
			if (__builtin_popcount((unsigned)m) > 4) {
				continue;
			}
			if (cnt++ == idx) {
				for (int b = 0; b < 7; b++) {
					if (m & (1 << b)) {
						src_add(hkeys[b], hzones[b]);
					}
				}
				fam_ord = m;
				return 1;
			}
		}
		return 0;
	}
	}
	return 0;
}

static const char *const absent_probe[] = {"", "B", "K99999", "MM", "\xc3", "\xfe", "ZZZZ", "zz"};
#define NABSENT	((int)(sizeof(absent_probe) / sizeof(*absent_probe)))

static void
fam_name(char *buf, size_t bsz)
{
	snprintf(buf, bsz, "family=%s final-newline=%s", fam == 'P' ? "pool-size" : fam == 'Z' ? "zone-name-length" : fam == 'K' ? "key-length" : fam == 'U' ? "key-order" : fam == 'F' ? "two-files" : fam == 'G' ? "files-in-every-order" : "high-bit-keys",
		 final_nl ? "yes" : "no");
}

enum { PH_COMPILE, PH_OPEN, PH_FIND, PH_CLOSE };
static const char *const ph_name[] = {"tzmap-cc", "tzm_open", "tzm_find", "tzm_close"};
static long the_idx;

static void
compile_case(long i)
{
	char *argv[] = {"tzmap", "cc", "-o", outpath, srcpath, split_at ? srcpath2 : NULL, split_at2 ? srcpath3 : NULL, NULL};
	(void)i;
	c19->phase = PH_COMPILE;
	optind = 0;
	if (tzmap_main(split_at2 ? 7 : split_at ? 6 : 5, argv) != 0) {
		/* a clean refusal; whether it is acceptable is the parent's business */
		C19_CTR(c_ref, "compiler_refusals");
		C19_INC(c_ref);
	}
}

static void
crashed(long i, int how, int sig, const char *report)
{
	char key[224], fn[96], cas[64];
	(void)i;
	fam_name(fn, sizeof(fn));
	if (how == C19_ASAN) {
		snprintf(key, sizeof(key), "mapsrc %s asan:%s in=%s", fn, report, ph_name[c19->phase]);
	} else {
		snprintf(key, sizeof(key), "mapsrc %s %s-%d in=%s", fn, how == C19_SIGNAL ? "fatal-signal" : "exit", sig, ph_name[c19->phase]);
	}
	snprintf(cas, sizeof(cas), "%c %ld", fam, the_idx);
	ex_viol(key, (double)fam_ord, cas, NULL, "source of %d lines (%s, coordinate %ld): %s during %s", nent, fn, fam_ord,
		how == C19_ASAN ? report : how == C19_SIGNAL ? "fatal signal" : "abnormal exit", ph_name[c19->phase]);
	if (g_verbose) {
		printf("  FAIL [%s]\n", key);
	}
}

static void
text(const char *s, char *buf, size_t bsz)
{
	size_t k = 0, n = strlen(s);
	for (size_t i = 0; i < n && k + 5 < bsz; i++) {
		unsigned char c = (unsigned char)s[i];
		if (i == 24 && n > 40) {
			k += (size_t)snprintf(buf + k, bsz - k, "..(%zu bytes)", n);
			break;
		}
		if (c < 0x20 || c >= 0x7f) {
			k += (size_t)snprintf(buf + k, bsz - k, "\\x%02x", c);
		} else {
			buf[k++] = (char)c;
		}
	}
	buf[k] = '\0';
}

static void
lookup_case(long i)
{
	tzmap_t m;
	char key[224], fn[96], cas[64], a[128], b[128], c[128];
	int rc;
	static const char *res;
	C19_CTR(c_eval, "evaluations");
	C19_CTR(c_present, "present_key_lookups");
	C19_CTR(c_absent, "absent_key_lookups");
	(void)i;

	fam_name(fn, sizeof(fn));
	snprintf(cas, sizeof(cas), "%c %ld", fam, the_idx);
	c19->phase = PH_OPEN;
	if ((m = tzm_open(outpath)) == NULL) {
		snprintf(key, sizeof(key), "mapsrc %s compiled-map-refused", fn);
		c19_viol(key, (double)fam_ord, cas, "the map compiled from a source of %d lines (coordinate %ld) is refused by tzm_open", nent, fam_ord);
		return;
	}
	for (int k = 0; k < nent + NABSENT; k++) {
		const char *q = k < nent ? skey[k] : absent_probe[k - nent];
		const char *e = NULL;
		int hit = 0;
		for (int j = 0; j < nent; j++) {
			if (!strcmp(skey[j], q)) {
				e = szone[j];
			}
		}
		C19_INC(c_eval);
		c19->phase = PH_FIND;
		EX_GUARD_BEGIN(rc);
		res = tzm_find(m, q);
		EX_GUARD_END;
		text(q, a, sizeof(a));
		if (rc) {
			snprintf(key, sizeof(key), "mapsrc %s lookup-does-not-return", fn);
			c19_viol(key, (double)fam_ord, cas, "source of %d lines (coordinate %ld): tzm_find('%s') does not return", nent, fam_ord, a);
			continue;
		}
		ex_outcome(ex_hash_mix(ex_hash(res ? res : "", res ? strnlen(res, 40) : 0), (uint64_t)fam));
		if (e != NULL) {
			C19_INC(c_present);
			if (res == NULL) {
				snprintf(key, sizeof(key), "mapsrc %s present-key-not-found", fn);
				text(e, b, sizeof(b));
				c19_viol(key, (double)fam_ord, cas, "source of %d lines (coordinate %ld): tzm_find('%s') = NULL, the source maps it to '%s'", nent, fam_ord, a, b);
			} else if (({
					/* a key listed twice: any of its zones will do */
					for (int j = 0; j < nent; j++) {
						hit |= !strcmp(skey[j], q) && !strcmp(szone[j], res);
					}
					!hit;
				})) {
				char tmp[64];
				snprintf(tmp, sizeof(tmp), "%.40s", res);
				text(tmp, c, sizeof(c));
				text(e, b, sizeof(b));
				snprintf(key, sizeof(key), "mapsrc %s present-key-wrong-zone %s", fn,
					 k == nent - 1 ? "last-line" : "other-line");
				c19_viol(key, (double)fam_ord, cas, "source of %d lines (coordinate %ld): tzm_find('%s') = '%s', the source maps it to '%s'", nent, fam_ord, a, c, b);
			} else if (g_verbose && nent < 10) {
				printf("  ok tzm_find('%s') = '%.40s'\n", a, res);
			}
		} else {
			C19_INC(c_absent);
			if (res != NULL) {
				snprintf(key, sizeof(key), "mapsrc %s absent-key-found", fn);
				c19_viol(key, (double)fam_ord, cas, "source of %d lines (coordinate %ld): tzm_find('%s') finds something although the key is not in the source", nent, fam_ord, a);
			}
		}
	}
	c19->phase = PH_CLOSE;
	tzm_close(m);
}

static int
do_source(void)
{
	FILE *f;
	int n0 = ex.nviol;
	uint64_t d0;
	EX_CTR(c_died, "cases_that_ended_their_child");
	EX_CTR(c_srcs, "map_sources_compiled");

	if ((f = fopen(srcpath, "w")) == NULL) {
		perror(srcpath);
		exit(3);
	}
	ascending_p = 1;
	for (int i = 0; i < nent; i++) {
		if ((split_at && i == split_at) || (split_at2 && i == split_at2)) {
			const char *np = i == split_at ? srcpath2 : srcpath3;
			fclose(f);
			if ((f = fopen(np, "w")) == NULL) {
				perror(np);
				exit(3);
			}
		}
		fprintf(f, "%s\t%s%s", skey[i], szone[i], i + 1 < nent || final_nl ? "\n" : "");
		if (i && strcmp(skey[i - 1], skey[i]) >= 0) {
			ascending_p = 0;
		}
	}
	fclose(f);
	unlink(outpath);
	d0 = *c_died;
	{
		uint64_t r0 = *ex_ctr("compiler_refusals");
		c19_batch(1, compile_case, crashed);
		if (*ex_ctr("compiler_refusals") != r0) {
			EX_CTR(c_okref, "skipped:source whose zone names exceed the 64 KiB the map format addresses, refused by the compiler with an error");
			EX_CTR(c_okuns, "skipped:source whose keys are not strictly ascending, refused by the compiler with an error");
			if (fam == 'P' && fam_ord > 65535) {
				++*c_okref;
			} else if (!ascending_p) {
				/* reading: `tzmap check' calls a non-ascending source an error; a compiler that refuses it fails cleanly */
				++*c_okuns;
			} else {
				char key[200], fn[96], cas[64];
				fam_name(fn, sizeof(fn));
				snprintf(key, sizeof(key), "mapsrc %s compiler-refuses-the-source", fn);
				snprintf(cas, sizeof(cas), "%c %ld", fam, the_idx);
				ex_viol(key, (double)fam_ord, cas, NULL, "tzmap cc exits non-zero on a well-formed source of %d lines (coordinate %ld)", nent, fam_ord);
			}
			return -1;
		}
	}
	if (*c_died != d0 || ex.nviol != n0) {
		return -1;
	}
	++*c_srcs;
	c19_batch(1, lookup_case, crashed);
	return 0;
}

int
main(int argc, char *argv[])
{
	EX_CTR(c_states, "states");
	EX_CTR(c_traces, "traces");
	EX_CTR(c_nontriv, "nontrivial");
	const char *rundir = getenv("VERIF_RUNDIR");
	static const char fams[] = "HUFGZKP";
	uint64_t slice = 0;

	ex_init(argc, argv);
	c19_init();
	zc_wd_init();
	c19_ctr_id("evaluations");
	c19_ctr_id("present_key_lookups");
	c19_ctr_id("absent_key_lookups");
	c19_ctr_id("compiler_refusals");
	zc_wd_limit = 2;
	snprintf(srcpath, sizeof(srcpath), "%s/c19ms.%d.src", rundir ? rundir : "/tmp", (int)getpid());
	snprintf(outpath, sizeof(outpath), "%s/c19ms.%d.tzm", rundir ? rundir : "/tmp", (int)getpid());
	snprintf(srcpath2, sizeof(srcpath2), "%s/c19ms.%d.src2", rundir ? rundir : "/tmp", (int)getpid());
	snprintf(srcpath3, sizeof(srcpath3), "%s/c19ms.%d.src3", rundir ? rundir : "/tmp", (int)getpid());
	(void)cimg, (void)clen;

	if (ex.cas) {
		char f;
		long idx;
		int n0 = ex.nviol;
		if (sscanf(ex.cas, "%c %ld", &f, &idx) != 2 || !mk_family(f, idx)) {
			return ex_replay_result(1, "bad case '%s'", ex.cas);
		}
		the_idx = idx;
		g_verbose = 1;
		zc_wd_limit = 250;
		printf("  source: %d lines, family %c, coordinate %ld, final newline %s\n", nent, fam, fam_ord, final_nl ? "yes" : "no");
		do_source();
		unlink(srcpath);
		unlink(outpath);
		for (int i = n0; i < ex.nviol; i++) {
			printf("  %s: %s (%llu cases)\n", ex.viol[i].key, ex.viol[i].detail, (unsigned long long)ex.viol[i].n);
		}
		return ex_replay_result(ex.nviol > n0, "%s", ex.cas);
	}

	ex_meta("rule", "zone-map SOURCES through the repository's own compiler (lib/tzmap.c cmd_cc via its main(), forked child, ASan): families high-bit-keys (every sorted set of <= 4 of "
		"7 keys, 4 of them with bytes >= 0x80, byte-wise ascending as `tzmap check' demands), zone-name-length (a zone name of 1..300 bytes as 1st/2nd/3rd of three lines), "
		"key-length (a key of 1..255 bytes, or two of them, between two short keys; longer keys are dropped by design), pool-size (N distinct zone names of 19 and 31 bytes so that "
		"the zone-name pool ends 1 entry below, at, 1/2/50 entries above 64 KiB and above 128 KiB); key-order (every sequence of 2..3 keys over {A AA B C}, most not ascending; reading: `tzmap check' calls a non-ascending source an error, so the compiler may "
		"refuse it with an error (counted), but a source it accepts with exit 0 must look up completely; a key listed twice may go to either of its zones), two-files (a sorted "
		"source given as two FILE arguments, as the usage `tzmap cc [FILE]...' allows), files-in-every-order (two and three FILEs, each ascending on its own, in every order of "
		"the files; the keys of all FILEs form one record array, so the same reading applies to their concatenation); each with and without a final newline. Oracle: the compile ends with "
		"no AddressSanitizer report and exit 0 (reading: a source whose zone names exceed the 64 KiB the record format can address may instead be refused with an error; counted); in the compiled map EVERY key of the source looks up to exactly its zone string and %d absent probes are absent. non-trivial = all (each source "
		"is at a seam of a buffer or field width)", NABSENT);
	ex_meta("bound", "complete (both tiers): 198 + 160 + 6 + 24 + 1800 + 1020 + 24 sources");

	for (const char *fp = fams; *fp && !ex_expired(); fp++) {
		for (long idx = 0; !ex_expired(); idx++) {
			if (!mk_family(*fp, idx)) {
				break;
			}
			if (!ex_mine(slice++)) {
				continue;
			}
			the_idx = idx;
			do_source();
			*c_states += (uint64_t)nent;
			++*c_traces;
			++*c_nontriv;
			if (ex_want_sample()) {
				char fn[96];
				fam_name(fn, sizeof(fn));
				ex_sample("%s coordinate %ld: %d lines compiled, %d lookups", fn, fam_ord, nent, nent + NABSENT);
			}
		}
	}
	unlink(srcpath);
	unlink(srcpath2);
	unlink(srcpath3);
	unlink(outpath);
	return ex_finish();
}
