/* c05_common.h -- shared by the C05 and C06 explorers: ddiff's own pipeline at level S,
 * dadd's application loop, calendar texts of reference days.
 *
 * The including TU must have included impl.h, explore.h, refcal.h and then
 *     #define main ddiff_main / #include "ddiff.c" / #undef main
 * so that determine_durfmt, determine_durtype, __strfdtdur are the tool's own. */
#ifndef VERIF_C05_COMMON_H
#define VERIF_C05_COMMON_H

/* civil calendars first; then the operand representations that are not calendars:
 * epoch-held values (@N), and the keys for pairs of unlike operands, written
 * <earlier>~<later> (date = a date-only ymd operand, ymd = a civil date-time) */
enum { CAL_YMD, CAL_YWD, CAL_YD, CAL_YMCW, NCAL,
       CAL_EPOCH = NCAL, CAL_EP_YMD, CAL_YMD_EP, CAL_DATE_YMD, CAL_YMD_DATE, CAL_DATE_EP, CAL_EP_DATE, NCALX };
static const char *const cal_name[NCALX] = {"ymd", "ywd", "yd", "ymcw", "epoch", "epoch~ymd", "ymd~epoch",
	"date~ymd", "ymd~date", "date~epoch", "epoch~date"};

/* text of a reference day in calendar CAL, optionally with a time of day (sec >= 0) */
static void
day_text(int cal, const struct rc_day *p, int sec, char *buf, size_t bsz)
{
	int n = 0;
	switch (cal) {
	case CAL_YMD: n = snprintf(buf, bsz, "%04d-%02d-%02d", p->y, p->m, p->d); break;
	case CAL_YWD: n = snprintf(buf, bsz, "%04d-W%02d-%d", p->isoy, p->isow, p->wd); break;
	case CAL_YD: n = snprintf(buf, bsz, "%04d-%03d", p->y, p->yday); break;
	case CAL_YMCW: n = snprintf(buf, bsz, "%04d-%02d-%02d-%02d", p->y, p->m, p->mcnt, p->wd); break;
	case CAL_EPOCH:
		/* epoch-held: always a date-time */
		snprintf(buf, bsz, "@%lld", (long long)p->unixd * 86400LL + (sec > 0 ? sec : 0));
		return;
	}
	if (sec >= 0) {
		snprintf(buf + n, bsz - (size_t)n, "T%02d:%02d:%02d", sec / 3600, sec / 60 % 60, sec % 60);
	}
}

/* ddiff's per-pair pipeline, exactly the body of the loop in ddiff.c:main():
 *     onlydp = ...; dtyp = determine_durtype(d, d2, dfmt); dur = dt_dtdiff(dtyp, d, d2);
 *     ddiff_prnt(dur, ofmt, dfmt, onlydp)      (which is __strfdtdur into a 256 byte buffer)
 * returns the number of bytes printed (without the newline ddiff_prnt appends),
 * -1 if ddiff says "duration ... is not defined" */
static int
ddiff_pipe(char *buf, size_t bsz, const char *ofmt, durfmt_t dfmt, struct dt_dt_s d, struct dt_dt_s d2)
{
	bool onlydp = dt_sandwich_only_d_p(d) || dt_sandwich_only_d_p(d2);
	dt_dtdurtyp_t dtyp;
	struct dt_dtdur_s dur;
	char tmp[256];
	size_t res;

	if (!(dtyp = determine_durtype(d, d2, dfmt))) {
		buf[0] = '\0';
		return -1;
	}
	dur = dt_dtdiff(dtyp, d, d2);
	tmp[0] = '\0';
	res = __strfdtdur(tmp, sizeof(tmp), ofmt, dur, dfmt, onlydp);
	if (res >= bsz) {
		res = bsz - 1;
	}
	memcpy(buf, tmp, res);
	buf[res] = '\0';
	return (int)res;
}

/* dadd's application: every blank-separated token is one command-line argument;
 * each goes through dt_io_strpdtdur until it has no more, then all durations are
 * applied in order by dt_dtadd (dadd.c:dadd_add).  returns 0, -1 if a token is not
 * accepted by dadd's duration parser */
static struct __strpdtdur_st_s c05_st;

static int
dadd_apply(struct dt_dt_s v, const char *durtext, struct dt_dt_s *res)
{
	char tok[64];
	const char *p = durtext;

	c05_st.ndurs = 0;
	c05_st.sign = 0;
	c05_st.flags = 0;
	c05_st.cont = NULL;
	while (*p) {
		size_t k = 0;
		while (*p == ' ') {
			p++;
		}
		while (*p && *p != ' ' && k + 1 < sizeof(tok)) {
			tok[k++] = *p++;
		}
		tok[k] = '\0';
		if (k == 0) {
			break;
		}
		do {
			if (dt_io_strpdtdur(&c05_st, tok) < 0) {
				c05_st.cont = NULL;
				c05_st.sign = 0;
				return -1;
			}
		} while (__strpdtdur_more_p(&c05_st));
	}
	if (c05_st.ndurs == 0) {
		return -1;
	}
	for (size_t i = 0; i < c05_st.ndurs; i++) {
		v = dt_dtadd(v, c05_st.durs[i]);
	}
	*res = v;
	return 0;
}

/* what dadd prints for a result (dt_io_write with no format) */
static void
dadd_print(char *buf, size_t bsz, struct dt_dt_s v)
{
	buf[0] = '\0';
	if (dt_unk_p(v)) {
		return;
	}
	dt_strfdt(buf, bsz, NULL, v);
}

/* day number (rd) of a value, for labelling only */
static long
val_rd(struct dt_dt_s v)
{
	struct dt_d_s x;
	if (dt_unk_p(v)) {
		return -1000000;
	}
	x = dt_dconv(DT_DAISY, v.d);
	return (long)x.daisy - 1;
}

#endif
