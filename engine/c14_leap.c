/* c14_leap.c -- C14: leap-second aware results follow the leap-second table.
 *
 * Model: the table parsed from <tree>/lib/leap-seconds.list (the source, not the
 * generated leap-seconds.def): instants (NTP seconds - 2208988800) and the
 * cumulative TAI-UTC; lookups are boring for-loops.  One model state per table
 * interval; every state is entered from both sides (entry -2..+2 s, the inserted
 * second 23:59:60 itself) in every section.
 *
 *   tai(civil) = Unix seconds of the civil date-time + TAI-UTC in force at the start
 *                of its day (+ the 61st second itself for 23:59:60)
 *
 * Sections (slices in this order):
 *   BIS   the bisections leaps_before_si32 / leaps_before_ui32 over the four encodings
 *         of the table (epoch seconds, ymd word, ymcw word, day count): the offset
 *         found through them must be the model's
 *   OFFS  TAI and GPS offsets of the virtual zones through zif_local_time() and through
 *         dtz_enrichz() + printing (what dconv --zone TAI|GPS does)
 *   RS    %rS differences through ddiff.c's own functions on all ordered pairs of the
 *         instant set I, per held representation: must be tai(B) - tai(A)
 *   ADD   +Nrs additions from every member of I (duration parsed as dadd parses it):
 *         the printed result must have tai = tai(start) + N, with 23:59:60 exactly on
 *         inserted seconds
 *   BIND  dconv --zone, ddiff -f %rS, dadd +Nrs binaries on stdin lists
 * Every zone lookup runs under the watchdog. */
#include "impl.h"
#include "explore.h"
#include "refcal.h"
#include "dt-io.h"
#include "leaps.h"
#include "leap-seconds.h"
#include "c11_decode.h"
#include <sys/wait.h>

#define main ddiff_main
#include "ddiff.c"
#undef main

#if !defined VERIF_TREE
# define VERIF_TREE "."
#endif

/* ---- the model ---- */
struct lent_s {
	int64_t t;	/* Unix seconds of the instant from which CORR is in force */
	int corr;	/* TAI - UTC */
};
#define MAXLEAP	128
static struct lent_s lm[MAXLEAP];
static int nlm;

static void
model_die(const char *what)
{
	fprintf(stderr, "BROKEN-CHECK: leap-second model: %s\n", what);
	exit(3);
}

static void
model_load(void)
{
	char fn[1024], line[512];
	FILE *f;

	snprintf(fn, sizeof(fn), "%s/lib/leap-seconds.list", ex.tree ? ex.tree : VERIF_TREE);
	if ((f = fopen(fn, "r")) == NULL) {
		model_die("cannot open lib/leap-seconds.list");
	}
	while (fgets(line, sizeof(line), f)) {
		unsigned long long ntp;
		int corr;
		if (line[0] == '#' || line[0] == '\n') {
			continue;
		}
		if (sscanf(line, "%llu %d", &ntp, &corr) != 2) {
			continue;
		}
		if (nlm >= MAXLEAP) {
			model_die("too many entries");
		}
		lm[nlm].t = (int64_t)ntp - 2208988800LL;
		lm[nlm].corr = corr;
		nlm++;
	}
	fclose(f);
	/* self check against independent constants: the first entry is 1972-01-01 with 10 s,
	 * 2012-07-01 (Unix 1341100800) carries 35 s, all instants are midnights and ascending */
	if (nlm < 26 || lm[0].t != 63072000 || lm[0].corr != 10) {
		model_die("first entry is not 1972-01-01 / 10 s");
	}
	{
		int seen = 0;
		for (int i = 0; i < nlm; i++) {
			if (lm[i].t % 86400) {
				model_die("an entry is not at a midnight");
			}
			if (i && (lm[i].t <= lm[i - 1].t || lm[i].corr < lm[i - 1].corr)) {
				model_die("entries not ascending / offset decreasing");
			}
			if (i && lm[i].corr - lm[i - 1].corr != 1) {
				model_die("an entry steps by something else than one second (the explorer only models insertions)");
			}
			seen |= lm[i].t == 1341100800 && lm[i].corr == 35;
		}
		if (!seen) {
			model_die("2012-07-01 / 35 s is not in the list");
		}
	}
}

/* TAI-UTC in force at Unix second T.  Reading: the table's first line only states the value
 * in force from 1972-01-01 on and lists no insertion on 1971-12-31, so before the first
 * entry the first entry's value holds (what the tree does), crossing the first entry inserts
 * nothing and 1971-12-31T23:59:60 does not exist.  -1 before 1970-01-01 (outside the
 * property's quantifier "all instants 1970..4095") */
static int
m_off(int64_t t)
{
	int off = t >= 0 ? lm[0].corr : -1;
	for (int i = 0; i < nlm; i++) {
		if (lm[i].t <= t) {
			off = lm[i].corr;
		}
	}
	return off;
}

/* is the instant before the table's first entry (own class keys) */
static int
m_before_first(int64_t t)
{
	return t < lm[0].t;
}

/* is the midnight T an instant before which a second was inserted (never the first entry) */
static int
m_insert_before(int64_t t)
{
	for (int i = 1; i < nlm; i++) {
		if (lm[i].t == t) {
			return 1;
		}
	}
	return 0;
}

/* an instant: Unix seconds, and whether it is the inserted second 23:59:60 just
 * before that (midnight) count */
struct inst_s {
	int64_t u;
	int s60;
};

/* TAI count (seconds, same origin as Unix) of an instant; 0 if outside the table */
static int
m_tai(struct inst_s x, int64_t *tai)
{
	if (x.s60) {
		int o;
		if (!m_insert_before(x.u) || (o = m_off(x.u - 1)) < 0) {
			return 0;
		}
		*tai = (x.u - 1) + o + 1;
		return 1;
	} else {
		int o = m_off(x.u);
		if (o < 0) {
			return 0;
		}
		*tai = x.u + o;
		return 1;
	}
}

/* number of insertions between two TAI counts (exclusive lower, inclusive upper end of the
 * inserted seconds themselves); only used to label classes */
static int
m_leaps_between(int64_t ta, int64_t tb)
{
	int n = 0;
	if (ta > tb) {
		int64_t x = ta;
		ta = tb;
		tb = x;
	}
	for (int i = 1; i < nlm; i++) {
		int64_t ls = lm[i].t + lm[i - 1].corr;	/* TAI count of the inserted second */
		n += ls > ta && ls <= tb;
	}
	return n;
}

/* ---- instants and their text ---- */
#define RD_OF_UNIX(u)	((int)((u) / 86400) + 134774)

static int
inst_text(int h, struct inst_s x, char *buf, size_t bsz)
{
	if (x.s60) {
		size_t l;
		if (h == H_SEXY || h == H_SEXYFMT) {
			return 0;	/* an epoch count has no name for the inserted second */
		}
		if (!held_text(h, RD_OF_UNIX(x.u - 1), 86399, buf, bsz)) {
			return 0;
		}
		l = strlen(buf);
		buf[l - 2] = '6', buf[l - 1] = '0';
		return 1;
	}
	if (x.u < 0) {
		return 0;
	}
	return held_text(h, RD_OF_UNIX(x.u), (int)(x.u % 86400), buf, bsz);
}

static int
inst_value(int h, struct inst_s x, struct dt_dt_s *out, char *text, size_t tsz)
{
	struct dt_dt_s v;
	if (!inst_text(h, x, text, tsz)) {
		return 0;
	}
	v = dt_strpdt(text, held_ifmt[h], NULL);
	if (dt_unk_p(v)) {
		return 0;
	}
	if (h == H_DAISY) {
		v = dt_dtconv((dt_dttyp_t)DT_DAISY, v);
		if (dt_unk_p(v) || v.d.typ != DT_DAISY) {
			return 0;
		}
	}
	*out = v;
	return 1;
}

/* does the value print as itself (else its conversion/printing is C01/C02's business) */
static int
prints_as_itself(int h, struct inst_s x, struct dt_dt_s v)
{
	char buf[96] = "";
	int64_t gi;
	int s60;
	dt_strfdt(buf, sizeof(buf), held_ofmt[h], v);
	return dec_datetime(held_olayout[h], buf, &gi, &s60) && gi == x.u && s60 == x.s60;
}

#define MAXI	512
static struct inst_s I[MAXI];
static int nI;
static int nI0;	/* the instants every representation has a text for come first; the rest are the midnights and
		 * noons around the entries, for values held as day numbers (N.0 / N.5) */

static void
mk_I(void)
{
	static const int64_t far[] = {
		0 /* 1970-01-01T00:00:00 */, 47174399 /* 1971-06-30T23:59:59 */, 47174400, 62985600 /* 1971-12-31T00:00:00 */,
		63072000 + 86400 * 200LL, 315964800 /* 1980-01-06 */, 946684799, 946684800, 1577836800 /* 2020-01-01 */,
		2147483647LL, 2147483648LL, 2208988800LL /* 2040-01-01 */, 4107542400LL /* 2100-03-01 */,
		4294967295LL, 4294967296LL, 8589934592LL, 67090118399LL /* 4095-12-31T23:59:59 */,
	};
	for (int i = 0; i < nlm; i++) {
		for (int d = -2; d <= 2; d++) {
			I[nI++] = (struct inst_s){lm[i].t + d, 0};
		}
		if (i) {
			I[nI++] = (struct inst_s){lm[i].t, 1};
		}
	}
	for (size_t k = 0; k < sizeof(far) / sizeof(*far); k++) {
		I[nI++] = (struct inst_s){far[k], 0};
	}
	nI0 = nI;
	for (int i = 0; i < nlm; i++) {
		static const int off[] = {-129600, -86400, -43200, 0, 43200, 86400};
		for (int k = 0; k < 6; k++) {
			I[nI++] = (struct inst_s){lm[i].t + off[k], 0};
		}
	}
}

static const char*
inst_name(struct inst_s x, char *buf, size_t bsz)
{
	if (!inst_text(H_YMD, x, buf, bsz)) {
		snprintf(buf, bsz, "Unix %lld", (long long)x.u);
	}
	return buf;
}

/* ---- BIS ---- */
enum { E_EPOCH, E_YMD, E_YMCW, E_DAISY, NENC };
static const char *const enc_name[NENC] = {"epoch", "ymd", "ymcw", "daycount"};

/* the offset found through the bisection over encoding ENC for KEY; -1000 hang, -1001 crash,
 * -1002 index outside the table */
static int
bis_off(int enc, int64_t key, size_t *idx)
{
	volatile size_t i = 0;
	int rc;
	EX_CTR(c_eval, "evaluations");

	++*c_eval;
	EX_GUARD_BEGIN(rc);
	switch (enc) {
	case E_EPOCH: i = leaps_before_si32(leaps_s, nleaps, (int32_t)key); break;
	case E_YMD: i = leaps_before_ui32(leaps_ymd, nleaps, (uint32_t)key); break;
	case E_YMCW: i = leaps_before_ui32(leaps_ymcw, nleaps, (uint32_t)key); break;
	case E_DAISY: i = leaps_before_ui32(leaps_d, nleaps, (uint32_t)key); break;
	}
	EX_GUARD_END;
	*idx = i;
	if (rc) {
		return rc == 1 ? -1000 : -1001;
	}
	if (i >= nleaps) {
		return -1002;
	}
	return leaps_corr[i];
}

static const char*
bis_what(int o)
{
	return o == -1000 ? "does not return" : o == -1001 ? "crashes" : "returns an index outside the table";
}

/* day D (ordinal) through the day encodings */
static int
judge_bis_day(int enc, int rd, int replay)
{
	const struct rc_day *p = rc_get(rd);
	int64_t u = (int64_t)p->unixd * 86400;
	int want = m_off(u), got;
	size_t idx;
	char text[64], key[160], cas[64];
	struct dt_dt_s v;
	uint32_t word;
	EX_CTR(c_trans, "transitions");
	EX_CTR(c_skipb, "skipped:instant before 1970-01-01 (outside the property's quantifier)");
	EX_CTR(c_skipv, "skipped:the representation has no such value (text not accepted)");

	if (want < 0) {
		++*c_skipb;
		return 0;
	}
	if (!held_value(enc == E_YMCW ? H_YMCW : enc == E_DAISY ? H_DAISY : H_YMD, rd, 0, &v, text, sizeof(text))) {
		++*c_skipv;
		return 0;
	}
	word = v.d.u;
	got = bis_off(enc, word, &idx);
	++*c_trans;
	ex_outcome(ex_hash_mix((uint64_t)enc, (uint64_t)(got + 2000) * 64 + idx));
	if (replay) {
		printf("  %s encoding, day %04d-%02d-%02d (word 0x%x): index %zu, offset %d; table says %d\n", enc_name[enc], p->y, p->m, p->d,
		       word, idx, got, want);
	}
	if (got != want) {
		if (got <= -1000) {
			snprintf(key, sizeof(key), "bisection enc=%s: %s", enc_name[enc], bis_what(got));
		} else {
			snprintf(key, sizeof(key), "bisection enc=%s%s: offset %s", enc_name[enc], m_before_first(u) ? " before-first-entry" : "",
				 got < want ? "too small" : "too large");
		}
		snprintf(cas, sizeof(cas), "BISD %d %d", enc, rd);
		ex_viol(key, rd, cas, NULL, "leaps_before_ui32 over the %s encoding with the key of %04d-%02d-%02d (0x%x) gives index %zu, "
			"TAI-UTC %d; the table says %d", enc_name[enc], p->y, p->m, p->d, word, idx, got, want);
		return 1;
	}
	return 0;
}

static int
judge_bis_epoch(int64_t t, int replay)
{
	int want = m_off(t), got;
	size_t idx;
	char key[160], cas[64];
	EX_CTR(c_trans, "transitions");
	EX_CTR(c_skipb, "skipped:instant before 1970-01-01 (outside the property's quantifier)");

	got = bis_off(E_EPOCH, t, &idx);
	++*c_trans;
	ex_outcome(ex_hash_mix(99, (uint64_t)(got + 2000) * 64 + idx));
	if (replay) {
		printf("  epoch encoding, key %lld: index %zu, offset %d; table says %d\n", (long long)t, idx, got, want);
	}
	if (got <= -1000) {
		snprintf(key, sizeof(key), "bisection enc=epoch: %s", bis_what(got));
		snprintf(cas, sizeof(cas), "BISE %lld", (long long)t);
		ex_viol(key, (double)t, cas, NULL, "leaps_before_si32(leaps_s, nleaps, %lld) %s", (long long)t, bis_what(got));
		return 1;
	}
	if (want < 0) {
		++*c_skipb;
		return 0;
	}
	if (got != want) {
		snprintf(key, sizeof(key), "bisection enc=epoch%s: offset %s", m_before_first(t) ? " before-first-entry" : "", got < want ? "too small" : "too large");
		snprintf(cas, sizeof(cas), "BISE %lld", (long long)t);
		ex_viol(key, (double)t, cas, NULL, "leaps_before_si32 with key %lld gives index %zu, TAI-UTC %d; the table says %d",
			(long long)t, idx, got, want);
		return 1;
	}
	return 0;
}

/* ---- OFFS ---- */
static zif_t z_tai, z_gps;

static int
judge_offs(int gps, int64_t t, int replay)
{
	int want = m_off(t), rc;
	volatile int64_t loc = 0;
	zif_t z = gps ? z_gps : z_tai;
	char key[200], cas[64], cmd[200], nm[64];
	int bad = 0;
	EX_CTR(c_trans, "transitions");
	EX_CTR(c_eval, "evaluations");
	EX_CTR(c_skipb, "skipped:instant before 1970-01-01 (outside the property's quantifier)");
	EX_CTR(c_skipg, "skipped:GPS offset before the GPS epoch 1980-01-06");

	if (want < 0) {
		++*c_skipb;
		return 0;
	}
	if (gps) {
		if (t < 315964800) {
			++*c_skipg;
			return 0;
		}
		want -= 19;
	}
	snprintf(cas, sizeof(cas), "OFFS %d %lld", gps, (long long)t);
	/* (a) the zone lookup */
	EX_GUARD_BEGIN(rc);
	loc = zif_local_time(z, t);
	EX_GUARD_END;
	++*c_eval;
	++*c_trans;
	ex_outcome(ex_hash_mix((uint64_t)gps + 7, (uint64_t)(loc - t) + (uint64_t)rc * 1000));
	if (replay) {
		printf("  zif_local_time(%s, %lld) - t = %lld%s; table says %d\n", gps ? "GPS" : "TAI", (long long)t, (long long)(loc - t),
		       rc ? " (did not return normally)" : "", want);
	}
	if (rc || loc - t != want) {
		snprintf(key, sizeof(key), "offset zone=%s via=zif_local_time %s: %s", gps ? "GPS" : "TAI",
			 m_before_first(t) ? "before-first-entry" : t >= 2147483648LL ? "at-or-after-2^31" : "before-2^31",
			 rc == 1 ? "does not return" : rc ? "crashes" : loc - t < want ? "too small" : "too large");
		snprintf(cmd, sizeof(cmd), "dconv --zone %s %s", gps ? "GPS" : "TAI", inst_name((struct inst_s){t, 0}, nm, sizeof(nm)));
		ex_viol(key, (double)t, cas, cmd, "zif_local_time(%s, %lld) - t is %lld; the table says %s-UTC = %d at that instant",
			gps ? "GPS" : "TAI", (long long)t, (long long)(loc - t), gps ? "GPS" : "TAI", want);
		bad++;
	}
	/* (b) what dconv --zone does: enrich the parsed UTC value, print, decode */
	if (t <= 67090118399LL - 100) {
		struct dt_dt_s v;
		static struct dt_dt_s r;
		char text[64], got[96] = "";
		int64_t gi = 0;
		int s60 = 0, dec;
		if (inst_value(H_YMD, (struct inst_s){t, 0}, &v, text, sizeof(text))) {
			EX_GUARD_BEGIN(rc);
			r = dtz_enrichz(v, z);
			dt_strfdt(got, sizeof(got), "%FT%T", r);
			EX_GUARD_END;
			*c_eval += 2;
			++*c_trans;
			ex_outcome(ex_hash(got, strlen(got)));
			dec = !rc && dec_datetime(H_YMD, got, &gi, &s60);
			if (replay) {
				printf("  dconv --zone %s %s -> '%s'; expected Unix %lld + %d\n", gps ? "GPS" : "TAI", text, got, (long long)t, want);
			}
			if (rc || !dec || s60 || gi != t + want) {
				snprintf(key, sizeof(key), "offset zone=%s via=dconv %s: %s", gps ? "GPS" : "TAI",
					 m_before_first(t) ? "before-first-entry" : t >= 2147483648LL ? "at-or-after-2^31" : "before-2^31",
					 rc == 1 ? "does not return" : rc ? "crashes" : !dec || s60 ? "not a plain date-time" : gi - t < want ? "too small" : "too large");
				snprintf(cmd, sizeof(cmd), "dconv --zone %s %s", gps ? "GPS" : "TAI", text);
				ex_viol(key, (double)t, cas, cmd, "dconv --zone %s %s gives '%s'; the table says %s-UTC = %d there", gps ? "GPS" : "TAI",
					text, got, gps ? "GPS" : "TAI", want);
				bad++;
			}
		}
	}
	return bad;
}

/* ---- RS: what `ddiff A B -f %rS' prints ---- */
static int
ddiff_rs(struct dt_dt_s a, struct dt_dt_s b, char *out, size_t osz)
{
	static durfmt_t dfmt;
	static int init;
	dt_dtdurtyp_t dtyp;
	struct dt_dtdur_s dur;
	bool onlydp;
	EX_CTR(c_eval, "evaluations");

	if (!init) {
		dfmt = determine_durfmt("%rS");
		init = 1;
	}
	memset(out, 0, osz);
	onlydp = dt_sandwich_only_d_p(a) || dt_sandwich_only_d_p(b);
	if (!(dtyp = determine_durtype(a, b, dfmt))) {
		snprintf(out, osz, "(not defined)");
		return 0;
	}
	dur = dt_dtdiff(dtyp, a, b);
	__strfdtdur(out, osz, "%rS", dur, dfmt, onlydp);
	*c_eval += 2;
	return 1;
}

static const int rs_reps[] = {H_YMD, H_YMCW, H_DAISY, H_SEXY, H_BIZDA, H_YWD, H_YD};
#define NRSREP_QUICK	5
#define NRSREP		7
/* the representations added after the first round of listings: differences of 2^31 s or more (a recorded
 * limit of the duration layout, the same for every representation) are left out for them */
#define LATE_REP_P(h)	((h) == H_BIZDA || (h) == H_LDN || (h) == H_MDN)

static const char*
nleap_name(int n)
{
	return n == 0 ? "none" : "some";
}

static int
judge_rs(int h, int ia, int ib, int replay)
{
	struct dt_dt_s a, b;
	char ta[64], tb[64], got[96], key[200], cas[64], cmd[256];
	int64_t taia, taib, want;
	char *ep = NULL;
	long long g;
	int ok;
	EX_CTR(c_trans, "transitions");
	EX_CTR(c_eval, "evaluations");
	EX_CTR(c_nontriv, "nontrivial");
	EX_CTR(c_skipb, "skipped:instant before 1970-01-01 (outside the property's quantifier)");
	EX_CTR(c_skipv, "skipped:the representation has no such value (text not accepted, no name for 23:59:60, or it does not print as itself: C09/C02/C01)");

	if (!m_tai(I[ia], &taia) || !m_tai(I[ib], &taib)) {
		++*c_skipb;
		return 0;
	}
	*c_eval += 2;
	if (!inst_value(h, I[ia], &a, ta, sizeof(ta)) || !inst_value(h, I[ib], &b, tb, sizeof(tb)) ||
	    !prints_as_itself(h, I[ia], a) || !prints_as_itself(h, I[ib], b)) {
		++*c_skipv;
		return 0;
	}
	want = taib - taia;
	if (LATE_REP_P(h) && llabs(want) >= 2147483648LL) {
		EX_CTR(c_skips, "skipped:difference of 2^31 s or more in a representation added later (recorded limit of the duration layout)");
		++*c_skips;
		return 0;
	}
	ok = ddiff_rs(a, b, got, sizeof(got));
	++*c_trans;
	if (m_leaps_between(taia, taib)) {
		++*c_nontriv;
	}
	ex_outcome(ex_hash(got, strlen(got)));
	g = strtoll(got, &ep, 10);
	if (replay) {
		printf("  ddiff %s %s -f %%rS (%s-held) -> '%s'; the TAI counts differ by %lld (UTC by %lld, %d inserted second(s) between)\n",
		       ta, tb, held_name[h], got, (long long)want, (long long)((I[ib].u - I[ib].s60) - (I[ia].u - I[ia].s60)), m_leaps_between(taia, taib));
	}
	if (!ok || !got[0] || *ep || g != want) {
		if (llabs(want) >= 2147483648LL) {
			snprintf(key, sizeof(key), "rS rep=%s sign=%c span=2^31-or-more%s", held_name[h], want < 0 ? '-' : '+',
				 m_before_first(I[ia].u - I[ia].s60) || m_before_first(I[ib].u - I[ib].s60) ? " operand=before-first-entry" : "");
		} else {
			snprintf(key, sizeof(key), "rS rep=%s sign=%c %sleaps-between=%s on-60=%s", held_name[h], want < 0 ? '-' : want > 0 ? '+' : '0',
				 m_before_first(I[ia].u - I[ia].s60) || m_before_first(I[ib].u - I[ib].s60) ? "operand=before-first-entry " :
				 I[ia].u >= 2147483648LL || I[ib].u >= 2147483648LL ? "operand=at-or-after-2^31 " : "",
				 nleap_name(m_leaps_between(taia, taib)), I[ia].s60 || I[ib].s60 ? "yes" : "no");
		}
		snprintf(cas, sizeof(cas), "RS %d %d %d", h, ia, ib);
		snprintf(cmd, sizeof(cmd), "ddiff %s%s%s%s %s -f %%rS", held_ifmt[h] ? "-i '" : "", held_ifmt[h] ? held_ifmt[h] : "", held_ifmt[h] ? "' " : "", ta, tb);
		ex_viol(key, (double)llabs(want), cas, h == H_DAISY ? NULL : cmd,
			"ddiff %s %s -f %%rS (%s-held) gives '%s'; UTC difference %lld + %d inserted second(s) = %lld", ta, tb, held_name[h], got,
			(long long)((I[ib].u - I[ib].s60) - (I[ia].u - I[ia].s60)), want < 0 ? -m_leaps_between(taia, taib) : m_leaps_between(taia, taib), (long long)want);
		return 1;
	}
	return 0;
}

/* ---- ADD: +Nrs ---- */
static const long long rs_n[] = {1, 2, 3, 60, 86400, 86401, 10000000LL, 1000000000LL, 1500000000LL};
#define NRSN	9
struct rsdur_s {
	char text[24];
	long long n;
	struct dt_dtdur_s dur;
	int ok;
};
static struct rsdur_s rsdurs[NRSN * 2];

static void
mk_rsdurs(void)
{
	for (int i = 0; i < NRSN; i++) {
		for (int neg = 0; neg < 2; neg++) {
			struct rsdur_s *d = rsdurs + 2 * i + neg;
			struct __strpdtdur_st_s st = {0};
			snprintf(d->text, sizeof(d->text), "%c%lldrs", neg ? '-' : '+', rs_n[i]);
			d->n = neg ? -rs_n[i] : rs_n[i];
			d->ok = dt_io_strpdtdur(&st, d->text) >= 0 && st.ndurs == 1;
			if (d->ok) {
				d->dur = st.durs[0];
			}
			__strpdtdur_free(&st);
		}
	}
}

/* is the TAI count T an inserted second */
static int
m_tai_is_leap(int64_t t)
{
	for (int i = 1; i < nlm; i++) {
		if (lm[i].t + lm[i - 1].corr == t) {
			return 1;
		}
	}
	return 0;
}

static int
judge_addrs_d(int h, int ia, const struct rsdur_s *d, int k, int landk, int delta, int replay)
{
	struct dt_dt_s a, r;
	char ta[64], got[96], key[220], cas[64], cmd[256];
	int64_t taia, want, gi = 0, gtai = 0;
	int s60 = 0, dec, nl;
	const char *why = NULL;
	EX_CTR(c_trans, "transitions");
	EX_CTR(c_eval, "evaluations");
	EX_CTR(c_nontriv, "nontrivial");
	EX_CTR(c_skipb, "skipped:instant before 1970-01-01 (outside the property's quantifier)");
	EX_CTR(c_skipv, "skipped:the representation has no such value (text not accepted, no name for 23:59:60, or it does not print as itself: C09/C02/C01)");
	EX_CTR(c_skipr, "skipped:result before 1970-01-01 or after 4095-12-31");
	EX_CTR(c_posix60, "accepted:epoch-held result on an inserted second carries the stamp of the following second (POSIX has no other name for it)");

	if (!d->ok) {
		snprintf(key, sizeof(key), "duration '%s' is not accepted", d->text);
		ex_viol(key, 0, "", NULL, "dt_io_strpdtdur rejects '%s'", d->text);
		return 1;
	}
	if (!m_tai(I[ia], &taia)) {
		++*c_skipb;
		return 0;
	}
	++*c_eval;
	if (!inst_value(h, I[ia], &a, ta, sizeof(ta)) || !prints_as_itself(h, I[ia], a)) {
		++*c_skipv;
		return 0;
	}
	want = taia + d->n;
	if (h == H_BIZDA) {
		/* a bizda-held value cannot name a weekend day (recorded under C11): leave out the additions whose
		 * result, or whose plain UTC sum, falls on one */
		int64_t plain = (I[ia].u - I[ia].s60) + d->n, res = want - 37;
		if (plain >= 0 && plain <= 67090118399LL && res >= 0 && res <= 67090118399LL &&
		    (!rc_get(RD_OF_UNIX(plain))->isbd || !rc_get(RD_OF_UNIX(res))->isbd || !rc_get(RD_OF_UNIX(want - 10 < 0 ? 0 : want - 10))->isbd)) {
			EX_CTR(c_skipw, "skipped:bizda-held value whose result falls on or next to a weekend (no name in that calendar; recorded under C11)");
			++*c_skipw;
			return 0;
		}
	}
	if (LATE_REP_P(h) && llabs(d->n) >= 1000000000LL) {
		return 0;	/* the far counts add nothing for the representations added later */
	}
	if (llabs(d->n) == 1500000000LL && !m_before_first(I[ia].u - I[ia].s60)) {
		/* this count exists to span 1970/1971 -> 2017; it is applied to starts before the first entry only */
		return 0;
	}
	if (want < 0 + lm[0].corr || want > 67090118399LL + lm[nlm - 1].corr) {
		++*c_skipr;
		return 0;
	}
	r = dt_dtadd(a, d->dur);
	memset(got, 0, sizeof(got));
	dt_strfdt(got, sizeof(got), held_ofmt[h], r);
	*c_eval += 2;
	++*c_trans;
	nl = m_leaps_between(taia, want);
	if (nl) {
		++*c_nontriv;
	}
	ex_outcome(ex_hash(got, strlen(got)));
	dec = dec_datetime(held_olayout[h], got, &gi, &s60);
	if (!dec) {
		why = "result is not a date-time";
	} else if (!m_tai((struct inst_s){gi, s60}, &gtai)) {
		why = s60 ? "prints second 60 where none was inserted" : "result outside the table";
	} else if (h == H_SEXY && m_tai_is_leap(want) && gtai == want + 1) {
		/* an epoch stamp has no name for 23:59:60: POSIX gives the inserted second the stamp of the second
		 * that follows it, and that is what must come out */
		++*c_posix60;
	} else if (gtai != want) {
		why = gtai < want ? "too early" : "too late";
	}
	if (replay) {
		printf("  %s (%s-held) %s -> '%s'%s; TAI count %lld %+lld = %lld%s\n", ta, held_name[h], d->text, got, why ? " WRONG" : "",
		       (long long)taia, d->n, (long long)want, m_tai_is_leap(want) ? " (an inserted second: 23:59:60)" : "");
	}
	if (why) {
		if (landk >= 0) {
			/* the family of additions that land -3..+3 s around an inserted second */
			snprintf(key, sizeof(key), "add-rs-land rep=%s sign=%c leaps-crossed=%s lands=%s: %s", held_name[h], d->n < 0 ? '-' : '+',
				 nl == 0 ? "none" : nl == 1 ? "one" : "two-or-more", delta < 0 ? "before-the-inserted-second" : delta == 0 ? "on-60" : "after-the-inserted-second", why);
			snprintf(cas, sizeof(cas), "LAND %d %d %d %d", h, ia, landk, delta);
		} else {
		snprintf(key, sizeof(key), "add-rs rep=%s sign=%c %sleaps-crossed=%s start-on-60=%d lands-on-60=%d: %s", held_name[h], d->n < 0 ? '-' : '+',
			 m_before_first(I[ia].u - I[ia].s60) ? "start=before-first-entry " : want < lm[0].t + lm[0].corr ? "result=before-first-entry " : "",
			 nleap_name(nl), I[ia].s60, m_tai_is_leap(want), why);
		snprintf(cas, sizeof(cas), "ADDRS %d %d %d", h, ia, k);
		}
		snprintf(cmd, sizeof(cmd), "dadd %s%s%s%s%s%s%s %s", held_ifmt[h] ? "-i '" : "", held_ifmt[h] ? held_ifmt[h] : "", held_ifmt[h] ? "' " : "",
			 held_ofmt[h] ? "-f '" : "", held_ofmt[h] ? held_ofmt[h] : "", held_ofmt[h] ? "' " : "", ta, d->text);
		ex_viol(key, (double)llabs(d->n), cas, h == H_DAISY ? NULL : cmd,
			"%s (%s-held) %s gives '%s' (%s by %lld s); %lld SI seconds on, crossing %d inserted second(s), is TAI count %lld%s",
			ta, held_name[h], d->text, got, why, (long long)(dec && gtai ? gtai - want : 0), d->n, nl, (long long)want,
			m_tai_is_leap(want) ? ", an inserted second (23:59:60)" : "");
		return 1;
	}
	return 0;
}

static int
judge_addrs(int h, int ia, int k, int replay)
{
	return judge_addrs_d(h, ia, rsdurs + k, k, -1, 0, replay);
}

/* the addition from I[ia] that lands DELTA seconds after the inserted second before entry LANDK */
static int
judge_land(int h, int ia, int landk, int delta, int replay)
{
	struct rsdur_s d;
	struct __strpdtdur_st_s st = {0};
	int64_t taia, n;
	int bad;
	if (landk < 1 || landk >= nlm || !m_tai(I[ia], &taia)) {
		return 0;
	}
	n = (lm[landk].t + lm[landk - 1].corr + delta) - taia;
	if (n == 0 || llabs(n) > 2147483647LL) {
		return 0;
	}
	snprintf(d.text, sizeof(d.text), "%c%lldrs", n < 0 ? '-' : '+', (long long)llabs(n));
	d.n = n;
	d.ok = dt_io_strpdtdur(&st, d.text) >= 0 && st.ndurs == 1;
	if (d.ok) {
		d.dur = st.durs[0];
	}
	__strpdtdur_free(&st);
	bad = judge_addrs_d(h, ia, &d, 0, landk, delta, replay);
	return bad;
}

/* ---- LEAP60: the inserted second itself as input of a zone conversion, and TAI labels read back ----
 * the offset steps AT the listed instant, so 23:59:60 still carries the old one */
static int
judge_leap60(int gps, int k, int binary, int replay)
{
	static struct dt_dt_s r;
	struct dt_dt_s v;
	zif_t z = gps ? z_gps : z_tai;
	struct inst_s x = {lm[k].t, 1};
	char text[64], got[96] = "", exp[64], key[200], cas[64], cmd[256];
	int64_t want = (lm[k].t - 1) + lm[k - 1].corr + 1 - (gps ? 19 : 0);
	int rc = 0, bad = 0;
	EX_CTR(c_trans, "transitions");
	EX_CTR(c_eval, "evaluations");
	EX_CTR(c_bind, "cli_binding_replays");
	EX_CTR(c_skipg, "skipped:GPS offset before the GPS epoch 1980-01-06");
	EX_CTR(c_skipv, "skipped:the representation has no such value (text not accepted, no name for 23:59:60, or it does not print as itself: C09/C02/C01)");

	if (gps && lm[k].t < 315964800) {
		++*c_skipg;
		return 0;
	}
	if (!inst_value(H_YMD, x, &v, text, sizeof(text))) {
		++*c_skipv;
		return 0;
	}
	/* expected text: the civil reading of the TAI (GPS) count */
	held_text(H_YMD, RD_OF_UNIX(want), (int)(want % 86400), exp, sizeof(exp));
	snprintf(cas, sizeof(cas), "LEAP60 %d %d %d", gps, k, binary);
	snprintf(cmd, sizeof(cmd), "dconv --zone %s %s", gps ? "GPS" : "TAI", text);
	if (binary) {
		char c2[512];
		FILE *pp;
		snprintf(c2, sizeof(c2), "'%s/src/dconv' --zone %s %s 2>/dev/null", ex.tree ? ex.tree : ".", gps ? "GPS" : "TAI", text);
		if ((pp = popen(c2, "r")) != NULL) {
			if (fgets(got, sizeof(got), pp)) {
				got[strcspn(got, "\n")] = '\0';
			}
			pclose(pp);
		}
		++*c_bind;
	} else {
		EX_GUARD_BEGIN(rc);
		r = dtz_enrichz(v, z);
		dt_strfdt(got, sizeof(got), "%FT%T", r);
		EX_GUARD_END;
		*c_eval += 2;
	}
	++*c_trans;
	ex_outcome(ex_hash(got, strlen(got)));
	if (replay) {
		printf("  %s -> '%s'; the inserted second carries the offset before the step: '%s'\n", cmd, got, exp);
	}
	if (rc || strcmp(got, exp)) {
		snprintf(key, sizeof(key), "%soffset of the inserted second 23:59:60 zone=%s: %s", binary ? "binary " : "", gps ? "GPS" : "TAI",
			 rc ? "does not return" : strcmp(got, exp) > 0 ? "too large" : "too small");
		ex_viol(key, (double)lm[k].t, cas, cmd, "%s gives '%s'; %s-UTC steps at %s of the next day, the inserted second is '%s' there",
			cmd, got, gps ? "GPS" : "TAI", "00:00:00", exp);
		bad++;
	}
	return bad;
}

/* ---- ZONE60: the inserted second and its neighbours under civil zones ----
 * A civil zone adds its offset to the label: the inserted second 23:59:60 UTC is HH:MM:60 there, distinct from
 * the second after it; --zone UTC is the identity.  The offset itself is taken from the implementation's own
 * conversion of 23:59:59 (zone correctness is C12's business); zones: UTC, one east, one west, one half-hour. */
static const char *const z60_zones[] = {"UTC", "Europe/Berlin", "America/New_York", "Asia/Kolkata"};
static const char *const z60_kind[] = {"utc", "east", "west", "half-hour"};
#define NZ60	4

static zif_t
z60_zone(int zi)
{
	static zif_t z[NZ60];
	if (z[zi] == NULL) {
		z[zi] = zif_open(z60_zones[zi]);
	}
	return z[zi];
}

/* run `dconv OPT ZONE' on the texts (as arguments or as stdin lines); the output lines go to OUT[][64] */
static int
z60_run(int stdin_mode, const char *opt, const char *zone, char texts[][64], int n, char out[][64])
{
	char cmd[2048], fin[600] = "";
	size_t k;
	FILE *pp;
	int got = 0;

	k = (size_t)snprintf(cmd, sizeof(cmd), "'%s/src/dconv' %s %s", ex.tree ? ex.tree : ".", opt, zone);
	if (stdin_mode) {
		const char *rundir = getenv("VERIF_RUNDIR");
		FILE *f;
		snprintf(fin, sizeof(fin), "%s/c14z60.%d.in", rundir ? rundir : "/tmp", (int)getpid());
		if ((f = fopen(fin, "w")) == NULL) {
			return 0;
		}
		for (int i = 0; i < n; i++) {
			fprintf(f, "%s\n", texts[i]);
		}
		fclose(f);
		snprintf(cmd + k, sizeof(cmd) - k, " < '%s' 2>/dev/null", fin);
	} else {
		for (int i = 0; i < n; i++) {
			k += (size_t)snprintf(cmd + k, sizeof(cmd) - k, " %s", texts[i]);
		}
		snprintf(cmd + k, sizeof(cmd) - k, " 2>/dev/null");
	}
	for (int i = 0; i < n; i++) {
		out[i][0] = '\0';
	}
	if ((pp = popen(cmd, "r")) != NULL) {
		while (got < n && fgets(out[got], 64, pp)) {
			out[got][strcspn(out[got], "\n")] = '\0';
			got++;
		}
		pclose(pp);
	}
	if (fin[0]) {
		unlink(fin);
	}
	return got;
}

/* VIA: 0 library, 1 binary with arguments, 2 binary with stdin lines */
static int
judge_zone60(int zi, int k, int via, int replay)
{
	static struct dt_dt_s r;
	zif_t z = z60_zone(zi);
	struct dt_dt_s v;
	char utc[6][64], loc[6][64], got[6][64], text[64], l59[96] = "", key[240], cas[64], cmd[256];
	/* the six inputs: entry -2, -1 (23:59:59), the inserted second, entry, +1, +2 */
	static const int delta[6] = {-2, -1, 0, 0, 1, 2};
	static const int is60[6] = {0, 0, 1, 0, 0, 0};
	int64_t t59 = lm[k].t - 1, lo59 = 0, off;
	int rc, s60 = 0, bad = 0;
	EX_CTR(c_trans, "transitions");
	EX_CTR(c_eval, "evaluations");
	EX_CTR(c_bind, "cli_binding_replays");
	EX_CTR(c_skipz, "skipped:zone file not available, or its offset at the entry is not a whole number of minutes (the label of the inserted second has no HH:MM:60 form)");

	if (z == NULL || !inst_value(H_YMD, (struct inst_s){t59, 0}, &v, text, sizeof(text))) {
		++*c_skipz;
		return 0;
	}
	EX_GUARD_BEGIN(rc);
	r = dtz_enrichz(v, z);
	dt_strfdt(l59, sizeof(l59), "%FT%T", r);
	EX_GUARD_END;
	if (rc || !dec_datetime(H_YMD, l59, &lo59, &s60) || s60 || (lo59 - t59) % 60) {
		++*c_skipz;
		return 0;
	}
	off = lo59 - t59;
	for (int i = 0; i < 6; i++) {
		struct inst_s x = {lm[k].t + delta[i], is60[i]};
		inst_text(H_YMD, x, utc[i], sizeof(utc[i]));
		if (is60[i]) {
			size_t l;
			held_text(H_YMD, RD_OF_UNIX(t59 + off), (int)((t59 + off) % 86400), loc[i], sizeof(loc[i]));
			l = strlen(loc[i]);
			loc[i][l - 2] = '6', loc[i][l - 1] = '0';
		} else {
			held_text(H_YMD, RD_OF_UNIX(x.u + off), (int)((x.u + off) % 86400), loc[i], sizeof(loc[i]));
		}
	}
	for (int dir = 0; dir < 2; dir++) {
		/* dir 0: --zone Z on the UTC labels; dir 1: --from-zone Z on the local labels */
		char (*in)[64] = dir ? loc : utc, (*want)[64] = dir ? utc : loc;
		if (via == 0) {
			for (int i = 0; i < 6; i++) {
				struct dt_dt_s w = dt_strpdt(in[i], NULL, NULL);
				got[i][0] = '\0';
				if (dt_unk_p(w)) {
					continue;
				}
				EX_GUARD_BEGIN(rc);
				r = dir ? dtz_forgetz(w, z) : dtz_enrichz(w, z);
				if (dir) {
					r.zdiff = 0U;
					r.neg = 0U;
				}
				dt_strfdt(got[i], sizeof(got[i]), "%FT%T", r);
				EX_GUARD_END;
				*c_eval += 2;
			}
		} else {
			z60_run(via == 2, dir ? "--from-zone" : "--zone", z60_zones[zi], in, 6, got);
			++*c_bind;
		}
		for (int i = 0; i < 6; i++) {
			++*c_trans;
			ex_outcome(ex_hash(got[i], strlen(got[i])));
			if (replay) {
				printf("  dconv %s %s %s (%s) -> '%s', expected '%s'\n", dir ? "--from-zone" : "--zone", z60_zones[zi], in[i],
				       via == 0 ? "library" : via == 1 ? "argument" : "stdin", got[i], want[i]);
			}
			if (strcmp(got[i], want[i])) {
				snprintf(key, sizeof(key), "zone60 %s zone-kind=%s via=%s input=%s: %s", dir ? "from-zone" : "to-zone", z60_kind[zi],
					 via == 0 ? "library" : via == 1 ? "argument" : "stdin", is60[i] ? "inserted-second" : "neighbour",
					 !got[i][0] ? "no output" : is60[i] && !strcmp(got[i], want[3]) ? "becomes the following second" : "other label");
				snprintf(cas, sizeof(cas), "Z60 %d %d %d", zi, k, via);
				snprintf(cmd, sizeof(cmd), "%sdconv %s %s%s%s", via == 2 ? "echo " : "", via == 2 ? in[i] : (dir ? "--from-zone" : "--zone"),
					 via == 2 ? "| dconv " : "", via == 2 ? (dir ? "--from-zone " : "--zone ") : z60_zones[zi], via == 2 ? z60_zones[zi] : "");
				if (via != 2) {
					snprintf(cmd, sizeof(cmd), "dconv %s %s %s", dir ? "--from-zone" : "--zone", z60_zones[zi], in[i]);
				} else {
					snprintf(cmd, sizeof(cmd), "echo %s | dconv %s %s", in[i], dir ? "--from-zone" : "--zone", z60_zones[zi]);
				}
				ex_viol(key, (double)lm[k].t, cas, cmd, "%s gives '%s'; the zone is %+lld s there, so the label is '%s'", cmd, got[i],
					(long long)off, want[i]);
				bad++;
			}
		}
	}
	return bad;
}

/* TAI label -> UTC -> TAI label must be the identity (dconv --from-zone TAI --zone TAI X) */
static int
judge_tairt(int gps, int64_t tai, int replay)
{
	static struct dt_dt_s r;
	struct dt_dt_s v;
	zif_t z = gps ? z_gps : z_tai;
	char text[64], got[96] = "", key[200], cas[64], cmd[256];
	int rc, isleap;
	EX_CTR(c_trans, "transitions");
	EX_CTR(c_eval, "evaluations");

	if (tai < 0 || !held_value(H_YMD, RD_OF_UNIX(tai), (int)(tai % 86400), &v, text, sizeof(text))) {
		return 0;
	}
	EX_GUARD_BEGIN(rc);
	r = dtz_forgetz(v, z);
	r = dtz_enrichz(r, z);
	dt_strfdt(got, sizeof(got), "%FT%T", r);
	EX_GUARD_END;
	*c_eval += 3;
	++*c_trans;
	ex_outcome(ex_hash(got, strlen(got)));
	isleap = m_tai_is_leap(tai + (gps ? 19 : 0));
	snprintf(cmd, sizeof(cmd), "dconv --from-zone %s --zone %s %s", gps ? "GPS" : "TAI", gps ? "GPS" : "TAI", text);
	if (replay) {
		printf("  %s -> '%s'\n", cmd, got);
	}
	if (rc || strcmp(got, text)) {
		snprintf(key, sizeof(key), "%s label read back through UTC is not itself (%s)", gps ? "GPS" : "TAI",
			 rc ? "does not return" : isleap ? "label of an inserted second" : "other label");
		snprintf(cas, sizeof(cas), "TAIRT %d %lld", gps, (long long)tai);
		ex_viol(key, (double)tai, cas, cmd, "%s gives '%s'", cmd, got);
		return 1;
	}
	return 0;
}

/* library only: dt_dtconv(DT_SEXYTAI, value) - Unix seconds must be the table's offset */
static int
judge_sexytai(int64_t t, int replay)
{
	struct dt_dt_s v, r;
	char text[64], key[160], cas[64];
	int want = m_off(t);
	int64_t got;
	EX_CTR(c_trans, "transitions");
	EX_CTR(c_eval, "evaluations");

	if (want < 0 || t > 67090118399LL || !held_value(H_YMD, RD_OF_UNIX(t), (int)(t % 86400), &v, text, sizeof(text))) {
		return 0;
	}
	r = dt_dtconv(DT_SEXYTAI, v);
	got = (int64_t)r.sexy - t;
	++*c_eval;
	++*c_trans;
	ex_outcome(ex_hash_mix(4242, (uint64_t)got));
	if (replay) {
		printf("  dt_dtconv(DT_SEXYTAI, %s) - Unix seconds = %lld; the table says %d\n", text, (long long)got, want);
	}
	if (got != want) {
		snprintf(key, sizeof(key), "dt_dtconv to SEXYTAI %s: offset %s", m_before_first(t) ? "before-first-entry" : t >= 2147483648LL ? "at-or-after-2^31" : "before-2^31",
			 got < want ? "too small" : "too large");
		snprintf(cas, sizeof(cas), "SXTAI %lld", (long long)t);
		ex_viol(key, (double)t, cas, NULL, "dt_dtconv(DT_SEXYTAI, %s) is Unix seconds %+lld; the table says TAI-UTC = %d there", text, (long long)got, want);
		return 1;
	}
	return 0;
}

/* ---- BIND ---- */
static void
bind_run(const char *label, const char *cmdfmt_tool, const char *args, int h, int mode, int ref_or_dur)
{
	/* mode 0: dconv --zone Z (args = zone), 1: ddiff REF -f %rS (ref_or_dur = index into I), 2: dadd +Nrs (index into rsdurs) */
	const char *rundir = getenv("VERIF_RUNDIR");
	char fin[512], fout[512], cmd[2048], line[256], text[64], exp[128], key[200], opt[128] = "", reft[64] = "";
	FILE *f;
	int n = 0, nin = 0, idx[MAXI];
	struct dt_dt_s refv;
	zif_t z = NULL;
	EX_CTR(c_bind, "cli_binding_replays");
	EX_CTR(c_bindln, "cli_binding_lines");

	if (rundir == NULL || ex.tree == NULL) {
		return;
	}
	snprintf(fin, sizeof(fin), "%s/c14bind.%s.in", rundir, label);
	snprintf(fout, sizeof(fout), "%s/c14bind.%s.out", rundir, label);
	if ((f = fopen(fin, "w")) == NULL) {
		return;
	}
	for (int i = 0; i < nI0; i++) {
		struct dt_dt_s v;
		int64_t tai;
		/* only lines the tool accepts and the table covers, so that lines stay aligned;
		 * the zone runs stay below 2^31 - 100 (the one instant known not to return is C12's) */
		if (!m_tai(I[i], &tai) || !inst_value(h, I[i], &v, text, sizeof(text))) {
			continue;
		}
		if (mode == 0 && (I[i].s60 || I[i].u > 67090118399LL - 100)) {
			continue;
		}
		idx[nin++] = i;
		fprintf(f, "%s\n", text);
	}
	fclose(f);
	if (held_ifmt[h]) {
		snprintf(opt, sizeof(opt), "-i '%s' ", held_ifmt[h]);
	}
	if (mode == 0) {
		z = !strcmp(args, "TAI") ? z_tai : z_gps;
		snprintf(cmd, sizeof(cmd), "'%s/src/dconv' %s--zone %s -f '%%FT%%T' < '%s' > '%s' 2>/dev/null", ex.tree, opt, args, fin, fout);
	} else if (mode == 1) {
		if (!inst_value(h, I[ref_or_dur], &refv, reft, sizeof(reft))) {
			return;
		}
		snprintf(cmd, sizeof(cmd), "'%s/src/ddiff' %s-f %%rS %s < '%s' > '%s' 2>/dev/null", ex.tree, opt, reft, fin, fout);
	} else {
		if (held_ofmt[h]) {
			snprintf(opt + strlen(opt), sizeof(opt) - strlen(opt), "-f '%s' ", held_ofmt[h]);
		}
		snprintf(cmd, sizeof(cmd), "'%s/src/dadd' %s-- %s < '%s' > '%s' 2>/dev/null", ex.tree, opt, rsdurs[ref_or_dur].text, fin, fout);
	}
	(void)cmdfmt_tool;
	if (system(cmd) < 0) {
		return;
	}
	++*c_bind;
	snprintf(key, sizeof(key), "binding %s rep=%s", label, held_name[h]);
	if ((f = fopen(fout, "r")) == NULL) {
		ex_viol(key, 0, "", cmd, "no output from the binary");
		return;
	}
	for (; n < nin && fgets(line, sizeof(line), f); n++) {
		struct dt_dt_s v;
		int rc = 0;
		line[strcspn(line, "\n")] = '\0';
		memset(exp, 0, sizeof(exp));
		inst_value(h, I[idx[n]], &v, text, sizeof(text));
		if (mode == 0) {
			static struct dt_dt_s r;
			EX_GUARD_BEGIN(rc);
			r = dtz_enrichz(v, z);
			dt_strfdt(exp, sizeof(exp), "%FT%T", r);
			EX_GUARD_END;
		} else if (mode == 1) {
			ddiff_rs(refv, v, exp, sizeof(exp));
		} else {
			struct dt_dt_s r = dt_dtadd(v, rsdurs[ref_or_dur].dur);
			dt_strfdt(exp, sizeof(exp), held_ofmt[h], r);
		}
		++*c_bindln;
		if (rc || strcmp(exp, line)) {
			ex_viol(key, n, "", cmd, "line %d ('%s'): the binary prints '%s', the library-level exploration observed '%s'", n + 1, text, line, exp);
		}
	}
	fclose(f);
	if (n != nin) {
		ex_viol(key, n, "", cmd, "the binary printed %d lines for %d input lines", n, nin);
	}
	unlink(fin);
	unlink(fout);
}

int
main(int argc, char *argv[])
{
	uint64_t slice = 0;
	int nrep;
	EX_CTR(c_states, "states");
	EX_CTR(c_traces, "traces");

	ex_init(argc, argv);
	rc_selfcheck();
	model_load();
	mk_I();
	mk_rsdurs();
	ex_wd_init(1000);
	z_tai = zif_open("TAI");
	z_gps = zif_open("GPS");
	if (z_tai == NULL || z_gps == NULL) {
		fprintf(stderr, "BROKEN-CHECK: zif_open(\"TAI\"/\"GPS\") failed\n");
		return 3;
	}
	if (nleaps != (size_t)nlm + 2) {
		/* not a broken check: the generated table disagrees with its source in size */
		ex_viol("generated table size differs from leap-seconds.list", 0, "", NULL,
			"leap-seconds.def has %zu rows (two of them sentinels), leap-seconds.list has %d entries", (size_t)nleaps, nlm);
	}

	if (ex.cas) {
		int a[4] = {0};
		long long t;
		if (!strncmp(ex.cas, "BISD ", 5) && sscanf(ex.cas + 5, "%d %d", a, a + 1) == 2 && a[0] > 0 && a[0] < NENC && rc_get(a[1])) {
			return ex_replay_result(judge_bis_day(a[0], a[1], 1), "bisection %s", enc_name[a[0]]);
		}
		if (!strncmp(ex.cas, "BISE ", 5) && sscanf(ex.cas + 5, "%lld", &t) == 1) {
			return ex_replay_result(judge_bis_epoch(t, 1), "bisection epoch");
		}
		if (!strncmp(ex.cas, "OFFS ", 5) && sscanf(ex.cas + 5, "%d %lld", a, &t) == 2) {
			return ex_replay_result(judge_offs(a[0] != 0, t, 1), "offset %s", a[0] ? "GPS" : "TAI");
		}
		if (!strncmp(ex.cas, "RS ", 3) && sscanf(ex.cas + 3, "%d %d %d", a, a + 1, a + 2) == 3 && a[0] >= 0 && a[0] < NHELD &&
		    a[1] >= 0 && a[1] < nI && a[2] >= 0 && a[2] < nI) {
			return ex_replay_result(judge_rs(a[0], a[1], a[2], 1), "%%rS rep=%s", held_name[a[0]]);
		}
		if (!strncmp(ex.cas, "ADDRS ", 6) && sscanf(ex.cas + 6, "%d %d %d", a, a + 1, a + 2) == 3 && a[0] >= 0 && a[0] < NHELD &&
		    a[1] >= 0 && a[1] < nI && a[2] >= 0 && a[2] < NRSN * 2) {
			return ex_replay_result(judge_addrs(a[0], a[1], a[2], 1), "+Nrs rep=%s", held_name[a[0]]);
		}
		if (!strncmp(ex.cas, "LAND ", 5) && sscanf(ex.cas + 5, "%d %d %d %d", a, a + 1, a + 2, a + 3) == 4 && a[0] >= 0 && a[0] < NHELD &&
		    a[1] >= 0 && a[1] < nI) {
			return ex_replay_result(judge_land(a[0], a[1], a[2], a[3], 1), "+Nrs landing around an inserted second rep=%s", held_name[a[0]]);
		}
		if (!strncmp(ex.cas, "LEAP60 ", 7) && sscanf(ex.cas + 7, "%d %d %d", a, a + 1, a + 2) == 3 && a[1] >= 1 && a[1] < nlm) {
			return ex_replay_result(judge_leap60(a[0] != 0, a[1], a[2] != 0, 1), "23:59:60 into zone %s", a[0] ? "GPS" : "TAI");
		}
		if (!strncmp(ex.cas, "Z60 ", 4) && sscanf(ex.cas + 4, "%d %d %d", a, a + 1, a + 2) == 3 && a[0] >= 0 && a[0] < NZ60 &&
		    a[1] >= 1 && a[1] < nlm && a[2] >= 0 && a[2] <= 2) {
			return ex_replay_result(judge_zone60(a[0], a[1], a[2], 1), "inserted second under zone %s", z60_zones[a[0]]);
		}
		if (!strncmp(ex.cas, "TAIRT ", 6) && sscanf(ex.cas + 6, "%d %lld", a, &t) == 2) {
			return ex_replay_result(judge_tairt(a[0] != 0, t, 1), "label round trip");
		}
		if (!strncmp(ex.cas, "SXTAI ", 6) && sscanf(ex.cas + 6, "%lld", &t) == 1) {
			return ex_replay_result(judge_sexytai(t, 1), "dt_dtconv to SEXYTAI");
		}
		return ex_replay_result(1, "bad case string '%s' (binding runs are replayed by their command line)", ex.cas);
	}

	nrep = ex.thorough ? NRSREP : NRSREP_QUICK;
	ex_meta("rule", "model: the %d entries of lib/leap-seconds.list (instant, cumulative TAI-UTC), for-loop lookups; tai(x) = Unix seconds + TAI-UTC "
		"in force (+1 on the inserted second 23:59:60). BIS: leaps_corr[bisection(key)] = model offset for the key's instant (day encodings: "
		"at 00:00:00 of the day), every bisection call under the watchdog. OFFS: zif_local_time(TAI|GPS, t) - t and the printed result of "
		"dtz_enrichz (dconv --zone) = model offset (GPS: -19, from 1980-01-06). RS: the text ddiff.c prints for %%rS = tai(B) - tai(A). "
		"LAND: the additions from every instant of I that land -3..+3 s around every inserted second (so spans crossing none, one, "
		"two or more insertions with every landing offset), same oracle, own keys. LEAP60: the inserted second 23:59:60 as input of "
		"--zone TAI|GPS carries the offset in force before the step; a TAI/GPS label read with --from-zone and printed with --zone is itself. "
		"dt_dtconv(DT_SEXYTAI) - Unix seconds = model offset. ZONE60: under a civil zone (UTC, Europe/Berlin, America/New_York, Asia/Kolkata) the "
		"inserted second 23:59:60 UTC has the label HH:MM:60 of the zone, distinct from the second after it, --zone UTC is the identity, and "
		"--from-zone reads those labels back; the zone's offset is the implementation's own conversion of 23:59:59; 27 entries x {-2,-1,:60,0,+1,+2} s "
		"x {--zone, --from-zone} x {library, dconv with arguments, dconv with stdin lines}. "
		"ADD: the printed result of dt_dtadd with a +Nrs duration (parsed by dt_io_strpdtdur) decodes to tai(start) + N, second 60 only on "
		"inserted seconds. Before the first entry (1970-01-01..1971-12-31) the first entry's TAI-UTC (10 s) holds, as the tree answers today: "
		"the list's first line only states the value in force from 1972-01-01 and lists no insertion on 1971-12-31, so crossing the first entry "
		"inserts nothing and 1971-12-31T23:59:60 does not exist; such cases carry 'before-first-entry' in their class key. Instants before "
		"1970-01-01 are outside the quantifier and skipped. non-trivial = pair / addition with at least one "
		"inserted second between its ends", nlm);
	ex_meta("bound", "I = every entry -2..+2 s, every inserted second 23:59:60, 1970-01-01T00:00:00, 1971-06-30T23:59:59/1971-07-01, 1971-12-31T00:00:00, 13 far instants (2^31-1, 2^31, 2040, 2100, 2^32-1, 2^32, 2^33, "
		"4095-12-31T23:59:59 ...): %d instants. BIS: epoch keys = I, every midnight 1970..4095, the int32 extremes; ymd/ymcw/day-count keys = "
		"every day 1970-01-01..4095-12-31 and the uint32 extremes. OFFS: I, every midnight 1970..4095, 2^31+-2, 2^32+-2, 2^33 x {TAI,GPS} x "
		"{zif_local_time, dconv path}. RS: all %d ordered pairs of I x %d held representations (%s). ADD: I x +-{1,2,3,60,86400,86401,10^7,10^9} rs, and +-1.5*10^9 rs from the instants before the first entry, "
		"x the same representations; LAND: I x 27 inserted seconds x 7 landing offsets x the same representations; LEAP60: 27 inserted seconds x {TAI,GPS} x {library, dconv binary}, label round trips 27 x 7 x 2; DAYNUM: ldn- and mdn-held date-times (N.0, N.5) on the midnights and noons -1.5..+1 days around every entry: all ordered pairs for %%rS, +-16 counts and the LAND family", nI0, nI0 * nI0, nrep, ex.thorough ? "ymd ymcw daisy epoch bizda ywd yd" : "ymd ymcw daisy epoch bizda");
	ex_meta("binding", "dconv --zone TAI|GPS, ddiff REF -f %%rS and dadd +Nrs binaries of the same build on the instant set from stdin, "
		"byte-compared with the library-level observation");

	/* BIS: epoch keys */
	if (ex_mine(slice++)) {
		static const int64_t ext[] = {INT32_MIN, INT32_MIN + 1LL, -1, 0, 1, INT32_MAX - 1LL, INT32_MAX};
		for (int i = 0; i < nI0; i++) {
			if (!I[i].s60 && I[i].u <= INT32_MAX) {
				judge_bis_epoch(I[i].u, 0);
			}
		}
		for (size_t k = 0; k < sizeof(ext) / sizeof(*ext); k++) {
			judge_bis_epoch(ext[k], 0);
		}
		/* uint32 extremes of the day encodings: must return with an index inside the table */
		for (int enc = E_YMD; enc < NENC; enc++) {
			static const int64_t uext[] = {0, 1, 0xfffffffeLL, 0xffffffffLL};
			for (size_t k = 0; k < 4; k++) {
				size_t idx;
				int o = bis_off(enc, uext[k], &idx);
				if (o <= -1000) {
					char key[160], cas[64];
					snprintf(key, sizeof(key), "bisection enc=%s: %s", enc_name[enc], bis_what(o));
					snprintf(cas, sizeof(cas), "BISX %d %lld", enc, (long long)uext[k]);
					ex_viol(key, (double)uext[k], cas, NULL, "leaps_before_ui32 over the %s encoding with key 0x%llx %s",
						enc_name[enc], (long long)uext[k], bis_what(o));
				}
			}
		}
		++*c_traces;
	}
	/* BIS: all days, all midnights; slice = year */
	for (int y = 1970; y <= RC_MAX_YEAR; y++, slice++) {
		if (!ex_mine(slice) || ex_expired()) {
			continue;
		}
		for (int rd = rc_yearstart[y]; rd < rc_yearstart[y + 1]; rd++) {
			int64_t t = (int64_t)rc_get(rd)->unixd * 86400;
			++*c_states;
			for (int enc = E_YMD; enc < NENC; enc++) {
				judge_bis_day(enc, rd, 0);
			}
			if (t <= INT32_MAX) {
				judge_bis_epoch(t, 0);
			}
			{
				judge_offs(0, t, 0);
				judge_offs(1, t, 0);
				judge_sexytai(t, 0);
			}
		}
		++*c_traces;
		if (ex_want_sample()) {
			ex_sample("BIS/OFFS year %d: every day through the ymd, ymcw and day-count bisections, every midnight through the epoch bisection and the TAI/GPS zones", y);
		}
	}
	/* OFFS on I and the 2^k seams */
	if (ex_mine(slice++)) {
		static const int64_t seams[] = {2147483646LL, 2147483647LL, 2147483648LL, 2147483649LL, 2147483650LL,
			4294967294LL, 4294967295LL, 4294967296LL, 4294967297LL, 4294967298LL, 8589934592LL};
		for (int gps = 0; gps < 2; gps++) {
			for (int i = 0; i < nI0; i++) {
				if (!I[i].s60) {
					judge_offs(gps, I[i].u, 0);
					if (!gps) {
						judge_sexytai(I[i].u, 0);
					}
				}
			}
			for (size_t k = 0; k < sizeof(seams) / sizeof(*seams); k++) {
				judge_offs(gps, seams[k], 0);
			}
		}
		++*c_traces;
		ex_sample("OFFS: %d instants of I and 11 seam instants x {TAI,GPS}", nI0);
	}
	/* LEAP60 / label round trips: slice = entry */
	for (int k = 1; k < nlm; k++, slice++) {
		if (!ex_mine(slice) || ex_expired()) {
			continue;
		}
		for (int gps = 0; gps < 2; gps++) {
			judge_leap60(gps, k, 0, 0);
			if (ex.thorough || k >= nlm - 3) {
				judge_leap60(gps, k, 1, 0);
			}
			/* labels around the inserted second's own label, and around the old and new offsets */
			for (int d = -3; d <= 3; d++) {
				judge_tairt(gps, lm[k].t + lm[k - 1].corr - (gps ? 19 : 0) + d, 0);
			}
		}
		++*c_traces;
	}
	/* ZONE60: civil zones x every inserted second and its neighbours; slice = (zone, entry).  The binaries run with the
	 * timer off (an interrupted read() would cut a pipe short); the library path is guarded by its own re-arm */
	for (int zi = 0; zi < NZ60; zi++) {
		for (int k = 1; k < nlm; k++, slice++) {
			if (!ex_mine(slice) || ex_expired()) {
				continue;
			}
			judge_zone60(zi, k, 0, 0);
			if (ex.thorough || k >= nlm - 3) {
				struct itimerval zt = {{0, 0}, {0, 0}}, on;
				getitimer(ITIMER_REAL, &on);
				setitimer(ITIMER_REAL, &zt, NULL);
				judge_zone60(zi, k, 1, 0);
				judge_zone60(zi, k, 2, 0);
				on.it_value = on.it_interval;
				setitimer(ITIMER_REAL, &on, NULL);
			}
			++*c_traces;
		}
	}
	/* LAND: every start of I x every inserted second x landing offsets -3..+3; slice = (rep, start) */
	for (int r = 0; r < nrep; r++) {
		for (int ia = 0; ia < nI0; ia++, slice++) {
			if (!ex_mine(slice) || ex_expired()) {
				continue;
			}
			if (rs_reps[r] == H_SEXY) {
				continue;	/* epoch-held values are not leap aware at all (recorded); nothing to learn here */
			}
			for (int k = 1; k < nlm; k++) {
				for (int d = -3; d <= 3; d++) {
					judge_land(rs_reps[r], ia, k, d, 0);
				}
			}
			++*c_traces;
		}
	}
	/* DAYNUM: values held as Lilian / Matlab day numbers with a time part; slice = (rep, first instant) */
	for (int r = 0; r < 2; r++) {
		const int h = r ? H_MDN : H_LDN;
		for (int ia = nI0; ia < nI; ia++, slice++) {
			if (!ex_mine(slice) || ex_expired()) {
				continue;
			}
			++*c_states;
			for (int ib = nI0; ib < nI; ib++) {
				judge_rs(h, ia, ib, 0);
			}
			for (int k = 0; k < NRSN * 2; k++) {
				judge_addrs(h, ia, k, 0);
			}
			for (int k = 1; k < nlm; k++) {
				for (int d = -3; d <= 3; d++) {
					judge_land(h, ia, k, d, 0);
				}
			}
			++*c_traces;
		}
	}
	/* RS: slice = (rep, first instant) */
	for (int r = 0; r < nrep; r++) {
		for (int ia = 0; ia < nI0; ia++, slice++) {
			if (!ex_mine(slice) || ex_expired()) {
				continue;
			}
			++*c_states;
			for (int ib = 0; ib < nI0; ib++) {
				judge_rs(rs_reps[r], ia, ib, 0);
			}
			for (int k = 0; k < NRSN * 2; k++) {
				judge_addrs(rs_reps[r], ia, k, 0);
			}
			++*c_traces;
			if (ex_want_sample()) {
				char nm[64];
				ex_sample("RS/ADD %s-held: %s against all %d instants (%%rS) and +-8 real-second counts", held_name[rs_reps[r]],
					  inst_name(I[ia], nm, sizeof(nm)), nI0);
			}
		}
	}
	/* BIND: the timer is switched off first (an interrupted read() would cut the comparison short) */
	{
		struct itimerval zt = {{0, 0}, {0, 0}};
		int i2012 = -1;
		for (int i = 0; i < nI0; i++) {
			if (I[i].u == 1341100800 && !I[i].s60) {
				i2012 = i;
			}
		}
		for (int k = 0; k < 12; k++, slice++) {
			char label[64];
			if (!ex_mine(slice) || ex_expired() || i2012 < 0) {
				continue;
			}
			setitimer(ITIMER_REAL, &zt, NULL);
		setitimer(ITIMER_VIRTUAL, &zt, NULL);
			switch (k) {
			case 0: bind_run("dconv--zone-TAI", NULL, "TAI", H_YMD, 0, 0); break;
			case 1: bind_run("dconv--zone-GPS", NULL, "GPS", H_YMD, 0, 0); break;
			case 2: bind_run("ddiff-rS-ref-2012-07-01T00:00:00", NULL, NULL, H_YMD, 1, i2012); break;
			case 3: bind_run("ddiff-rS-ref-2012-06-30T23:59:59", NULL, NULL, H_YMD, 1, i2012 - 1); break;
			case 4: bind_run("ddiff-rS-ref-2012-06-30T23:59:60", NULL, NULL, H_YMD, 1, i2012 + 3); break;
			case 5: bind_run("ddiff-rS-ymcw-ref-2012-07-01", NULL, NULL, H_YMCW, 1, i2012); break;
			case 6: case 7: case 8: case 9:
				snprintf(label, sizeof(label), "dadd%s", rsdurs[k - 6].text);
				bind_run(label, NULL, NULL, H_YMD, 2, k - 6);
				break;
			case 10: bind_run("dadd+86401rs-ymcw", NULL, NULL, H_YMCW, 2, 10); break;
			case 11: bind_run("dadd-1rs-ywd", NULL, NULL, H_YWD, 2, 1); break;
			}
		}
	}
	return ex_finish();
}
