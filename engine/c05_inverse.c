/* c05_inverse.c -- C05: ddiff is the inverse of dadd.
 *
 * Form A, level S + B (DESIGN.md §6 C05).  The reference calendar's states are
 * days; a transition is an ordered pair of states.  For every pair (A, B) of a
 * stated set the pair goes through ddiff's own pipeline (ddiff.c is included:
 * determine_durfmt -> determine_durtype -> dt_dtdiff -> __strfdtdur), the
 * printed duration is handed, token by token as command-line arguments would
 * be, to dadd's duration parser (dt_io_strpdtdur) and applied to the EARLIER of
 * the two values by dt_dtadd in the printed order (largest unit first), as
 * dadd.c:dadd_add does; the result printed as dadd prints it must be the LATER
 * value.  The sign must be '-' iff the second operand is the earlier one and
 * ddiff(B,A) must be ddiff(A,B) with the sign flipped.
 *
 * Parts: (i) all pairs inside 8-year windows x formats x input calendars,
 * (ii) every day of the range x distance 1..K x core formats,
 * (iii) date-times: boundary days x T7, all pairs x fixed-unit formats,
 * (iv) binding: the ddiff and dadd binaries on a stated subset. */
#include "impl.h"
#include "explore.h"
#include "refcal.h"
#define main ddiff_main
#include "ddiff.c"
#undef main
#include "c05_common.h"

enum { U_Y = 1, U_Q = 2, U_MO = 4, U_W = 8, U_D = 16, U_B = 32, U_H = 64, U_MI = 128, U_S = 256 };
enum { P_UNITS, P_YMD, P_YMCW, P_YWD, P_YD, P_BIZDA, P_BIZSIT };

struct fmt_s {
	const char *fmt;	/* NULL: no -f */
	const char *name;
	int pmode;
	unsigned int units;
};

/* date formats (both operands are dates) */
static const struct fmt_s dfmts[] = {
	{NULL, "(none)", P_UNITS, U_D},
	{"%dd", "%dd", P_UNITS, U_D},
	{"%F", "%F", P_UNITS, U_D},
	{"daisy", "daisy", P_UNITS, U_D},
	{"%ww %dd", "%ww %dd", P_UNITS, U_W | U_D},
	{"%ww", "%ww", P_UNITS, U_W},
	{"%db", "%db", P_UNITS, U_B},
	{"bizsi", "bizsi", P_UNITS, U_B},
	{"%ww %db", "%ww %db", P_UNITS, U_W | U_B},
	{"%mmo %dd", "%mmo %dd", P_UNITS, U_MO | U_D},
	{"%mmo", "%mmo", P_UNITS, U_MO},
	{"%mmo %ww %dd", "%mmo %ww %dd", P_UNITS, U_MO | U_W | U_D},
	{"%Yy %mmo %dd", "%Yy %mmo %dd", P_UNITS, U_Y | U_MO | U_D},
	{"%Yy %mmo", "%Yy %mmo", P_UNITS, U_Y | U_MO},
	{"%Yy", "%Yy", P_UNITS, U_Y},
	{"%Yy %mmo %ww %dd", "%Yy %mmo %ww %dd", P_UNITS, U_Y | U_MO | U_W | U_D},
	{"%Yy %qq %mmo %dd", "%Yy %qq %mmo %dd", P_UNITS, U_Y | U_Q | U_MO | U_D},
	{"%Yy %dd", "%Yy %dd", P_UNITS, U_Y | U_D},
	{"%Yy %ww %dd", "%Yy %ww %dd", P_UNITS, U_Y | U_W | U_D},
	{"ymd", "ymd", P_YMD, U_Y | U_MO | U_D},
	{"ymcw", "ymcw", P_YMCW, U_Y | U_MO | U_W | U_D},
	{"ywd", "ywd", P_YWD, U_Y | U_W | U_D},
	{"yd", "yd", P_YD, U_Y | U_D},
	{"bizda", "bizda", P_BIZDA, U_Y | U_MO | U_B},
	{"%mmo %db", "%mmo %db", P_UNITS, U_MO | U_B},
	{"%Yy %mmo %db", "%Yy %mmo %db", P_UNITS, U_Y | U_MO | U_B},
	{"%Yy %db", "%Yy %db", P_UNITS, U_Y | U_B},
	/* dates in sub-day units (ddiff prints them: 2012-01-01 2012-01-03 -f %H = 48) */
	{"%Hh", "%Hh", P_UNITS, U_H},
	{"%Mm", "%Mm", P_UNITS, U_MI},
	{"%Ss", "%Ss", P_UNITS, U_S},
	{"%dd %Hh %Mm %Ss", "%dd %Hh %Mm %Ss", P_UNITS, U_D | U_H | U_MI | U_S},
	{"%ww %Hh", "%ww %Hh", P_UNITS, U_W | U_H},
};
#define NDFMT	((int)(sizeof(dfmts) / sizeof(*dfmts)))

/* part (ii): formats walked over the whole range, by index into dfmts, per calendar */
static const struct { int cal; int fi; } longs[] = {
	{CAL_YMD, 1}, {CAL_YMD, 4}, {CAL_YMD, 6}, {CAL_YMD, 9}, {CAL_YMD, 12}, {CAL_YMD, 17},
	{CAL_YWD, 18}, {CAL_YWD, 4}, {CAL_YD, 1}, {CAL_YMCW, 4},
};
#define NLONG	((int)(sizeof(longs) / sizeof(*longs)))

/* date-time formats (both operands are date-times): fixed-length units only */
static const struct fmt_s tfmts[] = {
	{NULL, "(none)", P_UNITS, U_S},
	{"%Ss", "%Ss", P_UNITS, U_S},
	{"%T", "%T", P_UNITS, U_S},
	{"%Mm %Ss", "%Mm %Ss", P_UNITS, U_MI | U_S},
	{"%Hh %Mm %Ss", "%Hh %Mm %Ss", P_UNITS, U_H | U_MI | U_S},
	{"%dd %Hh %Mm %Ss", "%dd %Hh %Mm %Ss", P_UNITS, U_D | U_H | U_MI | U_S},
	{"%ww %dd %Hh %Mm %Ss", "%ww %dd %Hh %Mm %Ss", P_UNITS, U_W | U_D | U_H | U_MI | U_S},
	{"%dd %T", "%dd %T", P_UNITS, U_D | U_S},
	{"%dd %Ss", "%dd %Ss", P_UNITS, U_D | U_S},
	{"%Hh %Ss", "%Hh %Ss", P_UNITS, U_H | U_S},
	{"%ww %Hh %Ss", "%ww %Hh %Ss", P_UNITS, U_W | U_H | U_S},
	{"%Hh", "%Hh", P_UNITS, U_H},
	{"%Mm", "%Mm", P_UNITS, U_MI},
	{"%dd %Hh", "%dd %Hh", P_UNITS, U_D | U_H},
	{"%dd", "%dd", P_UNITS, U_D},
	{"%ww %dd", "%ww %dd", P_UNITS, U_W | U_D},
	{"%db %Hh %Mm %Ss", "%db %Hh %Mm %Ss", P_UNITS, U_B | U_H | U_MI | U_S},
	{"%db %Hh", "%db %Hh", P_UNITS, U_B | U_H},
	{"%db", "%db", P_UNITS, U_B},
	{"bizsi", "bizsi", P_BIZSIT, U_B | U_H | U_MI | U_S},
};
#define NTFMT	((int)(sizeof(tfmts) / sizeof(*tfmts)))
static const int tcals[] = {CAL_YMD, CAL_YWD, CAL_YMCW};	/* yd has no date-time text the parser takes */
#define NTCAL	3

static const int T7[7] = {0, 1, 3599, 3600, 43199, 43200, 86399};

/* windows W8 */
static int win_y0[4] = {1997, 1897, 1601, 4088};
static int WIN_YEARS = 8;

struct val_s {
	struct dt_dt_s v;
	int rd, sec;
	char text[40];
	char canon[40];
};

/* a prepared run of consecutive days in one calendar */
struct run_s {
	int lo, n;
	struct val_s *a;
};

static durfmt_t dfmt_of[64];	/* determine_durfmt() per format, as ddiff computes it once */
static durfmt_t tfmt_of[64];

static void
prep_val(struct val_s *x, int cal, int rd, int sec)
{
	const struct rc_day *p = rc_get(rd);
	x->rd = rd;
	x->sec = sec;
	day_text(cal, p, sec, x->text, sizeof(x->text));
	/* the tools read their operands with dt_io_strpdt(arg, no formats, no zone) */
	x->v = dt_io_strpdt(x->text, NULL, 0, NULL);
	dadd_print(x->canon, sizeof(x->canon), x->v);
}

static void
prep_run(struct run_s *r, int cal, int lo, int hi)
{
	EX_CTR(c_eval, "evaluations");
	if (lo < 0) {
		lo = 0;
	}
	if (hi >= RC_NDAYS) {
		hi = RC_NDAYS - 1;
	}
	r->lo = lo;
	r->n = hi - lo + 1;
	r->a = realloc(r->a, sizeof(*r->a) * (size_t)r->n);
	for (int i = 0; i < r->n; i++) {
		prep_val(r->a + i, cal, lo + i, -1);
		*c_eval += 2;
	}
}

/* printed duration (without sign) -> tokens dadd takes */
static int
to_units(int pmode, const char *body, char *out, size_t osz)
{
	int a, b, c, d;
	char x;
	switch (pmode) {
	case P_UNITS:
		snprintf(out, osz, "%s", body);
		return 0;
	case P_YMD:
		if (sscanf(body, "%d-%d-%d%c", &a, &b, &c, &x) != 3) {
			return -1;
		}
		snprintf(out, osz, "%dy %dmo %dd", a, b, c);
		return 0;
	case P_YMCW:
		if (sscanf(body, "%d-%d-%d-%d%c", &a, &b, &c, &d, &x) != 4) {
			return -1;
		}
		snprintf(out, osz, "%dy %dmo %dw %dd", a, b, c, d);
		return 0;
	case P_YWD:
		if (sscanf(body, "%d-W%d-%d%c", &a, &b, &c, &x) != 3) {
			return -1;
		}
		snprintf(out, osz, "%dy %dw %dd", a, b, c);
		return 0;
	case P_YD:
		if (sscanf(body, "%d-%d%c", &a, &b, &x) != 2) {
			return -1;
		}
		snprintf(out, osz, "%dy %dd", a, b);
		return 0;
	case P_BIZSIT:
		if (sscanf(body, "%dbT%d:%d:%d%c", &a, &b, &c, &d, &x) != 4) {
			return -1;
		}
		snprintf(out, osz, "%db %dh %dm %ds", a, b, c, d);
		return 0;
	case P_BIZDA:
		if (sscanf(body, "%d-%d-%d%c", &a, &b, &c, &x) != 4 || x != 'b') {
			return -1;
		}
		snprintf(out, osz, "%dy %dmo %db", a, b, c);
		return 0;
	}
	return -1;
}

static const char*
fmt_arg(const struct fmt_s *f, char *buf, size_t bsz)
{
	if (f->fmt == NULL) {
		return "";
	}
	snprintf(buf, bsz, " -f '%s'", f->fmt);
	return buf;
}

/* is the pair inside the property for this format? NULL = yes, else a skip reason */
static const char *const SK_DOM = "skipped:month/year format and the earlier day-of-month is > 28 (outside the statement)";
static const char *const SK_BD = "skipped:business-day format and an operand is a weekend day (no business-day name)";
static const char *const SK_FIN = "skipped:format lacks the finest unit needed for this pair";
static const char *const SK_W53 = "skipped:years+weeks format and the earlier day lies in ISO week 53 (a week that does not exist in every year: the analogue of day-of-month > 28)";

static void
count_skip(const char *why)
{
	static const char *nm[6];
	static uint64_t *ct[6];
	for (int i = 0; i < 6; i++) {
		if (nm[i] == why) {
			++*ct[i];
			return;
		}
		if (nm[i] == NULL) {
			nm[i] = why;
			ct[i] = ex_ctr(why);
			++*ct[i];
			return;
		}
	}
}

static const char*
outside(const struct fmt_s *f, const struct val_s *e, const struct val_s *l, int dt)
{
	const struct rc_day *pe = rc_get(e->rd), *pl = rc_get(l->rd);
	unsigned int u = f->units;

	if ((u & (U_Y | U_Q | U_MO)) && pe->d > 28) {
		return SK_DOM;
	}
	if ((u & U_B) && !(pe->isbd && (pl->isbd || (dt == 1 && (u & (U_H | U_MI | U_S)))))) {
		/* with time units the rest can carry a date-time over the weekend, so only the
		 * earlier operand has to be a business day there */
		return SK_BD;
	}
	if ((u & (U_Y | U_W | U_MO | U_Q)) == (U_Y | U_W) && pe->isow == 53) {
		return SK_W53;
	}
	if (dt == 1) {
		/* date-times: fixed units, the finest one must divide the distance */
		long long ds = (long long)(l->rd - e->rd) * 86400LL + (l->sec - e->sec);
		long long fin = (u & U_S) ? 1 : (u & U_MI) ? 60 : (u & U_H) ? 3600 : (u & (U_D | U_B)) ? 86400 : 604800;
		if (ds % fin) {
			return SK_FIN;
		}
		return NULL;
	}
	if (!(u & (U_D | U_B | U_H | U_MI | U_S))) {
		int ok;
		if (u & U_W) {
			ok = !(u & (U_Y | U_MO)) && (l->rd - e->rd) % 7 == 0;
		} else if (u & U_MO) {
			ok = pe->d == pl->d;
		} else {
			ok = pe->d == pl->d && pe->m == pl->m;
		}
		if (!ok) {
			return SK_FIN;
		}
	}
	return NULL;
}

static int replay_mode;

/* ---- which (format, operand calendar) combinations the statement covers ----
 * ddiff fixes the calendar in which it counts months and years by the FORMAT alone
 * (determine_durtype: months -> y-m-d; years+days -> "in terms of ymd" (lib/yd.c);
 * years+weeks -> ISO week dates); dadd applies them in the calendar of its OPERAND.
 * CC_IN: both are the same calendar (or the format has fixed-length units only);
 * CC_XCAL: both calendars know the unit but mean different things by it - judged,
 *          reported under the coarser key "xcal ..." (one root cause);
 * CC_NOMON: months applied to a ywd/yd operand: date-core.c:dt_dadd_m documents that
 *          these calendars have no notion of months (no-op): outside, counted;
 * CC_YWDB: business days applied to a ywd operand: unimplemented in dadd, C07's finding. */
enum { CC_IN, CC_XCAL, CC_NOMON, CC_YWDB };
static int combo_d[64][NCALX], combo_t[64][NCALX];

static int
combo_class(const struct fmt_s *f, durfmt_t df, int cal, int dt)
{
	struct val_s x, y;
	dt_dtdurtyp_t ty;

	if ((f->units & U_B) && cal == CAL_YWD) {
		return CC_YWDB;
	}
	prep_val(&x, cal, 146000, dt ? 0 : -1);
	prep_val(&y, cal, 147000, dt ? 0 : -1);
	ty = determine_durtype(x.v, y.v, df);
	switch ((int)ty) {
	case DT_DURYMD:
		if (cal == CAL_YMD) {
			return CC_IN;
		} else if ((cal == CAL_YWD || cal == CAL_YD) && (f->units & (U_MO | U_Q))) {
			return CC_NOMON;
		}
		return CC_XCAL;
	case DT_DURYD:
		/* year-day operands: nominally the same calendar as the years+days difference */
		return cal == CAL_YMD || (cal == CAL_YD && !(f->units & U_B)) ? CC_IN : CC_XCAL;
	case DT_DURYWD:
		return cal == CAL_YWD ? CC_IN : CC_XCAL;
	default:
		return CC_IN;
	}
}

/* fast path for classes with millions of cases: once a class exists and this case
 * is not smaller than its example, only count */
enum { VK_INV, VK_XCAL, VK_PARSE, VK_SIGN, VK_UNDEF, NVK };
static struct ex_viol_s *vslot[NVK][3][64][NCALX][2][6];

static inline int
viol_fast(struct ex_viol_s **slot, double ord)
{
	struct ex_viol_s *v = *slot;
	if (v != NULL && ord >= v->ord) {
		v->n++;
		if (ord > v->hi) {
			v->hi = ord;
		}
		return 1;
	}
	return 0;
}

static void
viol_bind(struct ex_viol_s **slot, const char *key)
{
	for (int i = 0; i < ex.nviol; i++) {
		if (!strcmp(ex.viol[i].key, key)) {
			*slot = ex.viol + i;
			return;
		}
	}
}

/* judge one printed duration TXT of ddiff(A,B); E/L = earlier/later of the two;
 * expect_neg: B is the earlier one.  returns the number of violations */
static int
judge(const struct fmt_s *f, int fi, int cal, int dt, int cc, const struct val_s *A, const struct val_s *B,
      const struct val_s *e, const struct val_s *l, int n, const char *txt, int expect_neg)
{
	char key[160], cas[96], cmd[320], fa[64], ubuf[128], got[64];
	const char *units;
	struct dt_dt_s res;
	double ord = (double)(l->rd - e->rd) + (dt == 1 ? (double)(l->sec - e->sec) / 86400.0 : 0.0);
	int neg, bad = 0;
	const char *sg = expect_neg ? "-" : "+";
	struct ex_viol_s **slot;
	EX_CTR(c_eval, "evaluations");

#define MKCAS()	snprintf(cas, sizeof(cas), "pair %d %d %d %d %d %d %d", dt, fi, cal, A->rd, A->sec, B->rd, B->sec)
	if (n < 0) {
		slot = &vslot[VK_UNDEF][dt][fi][cal][expect_neg][0];
		if (!viol_fast(slot, ord) || replay_mode) {
			MKCAS();
			snprintf(key, sizeof(key), "undefined fmt=%s cal=%s sign=%s", f->name, cal_name[cal], sg);
			snprintf(cmd, sizeof(cmd), "ddiff %s %s%s", A->text, B->text, fmt_arg(f, fa, sizeof(fa)));
			ex_viol(key, ord, cas, cmd, "ddiff %s %s%s: duration is not defined", A->text, B->text, fmt_arg(f, fa, sizeof(fa)));
			viol_bind(slot, key);
			if (replay_mode) {
				printf("  ddiff %s %s%s: duration is not defined\n", A->text, B->text, fmt_arg(f, fa, sizeof(fa)));
			}
		}
		return 1;
	}
	neg = txt[0] == '-';
	if (neg != expect_neg) {
		slot = &vslot[VK_SIGN][dt][fi][cal][expect_neg][0];
		if (!viol_fast(slot, ord) || replay_mode) {
			MKCAS();
			snprintf(key, sizeof(key), "sign fmt=%s cal=%s sign=%s", f->name, cal_name[cal], sg);
			snprintf(cmd, sizeof(cmd), "ddiff %s %s%s", A->text, B->text, fmt_arg(f, fa, sizeof(fa)));
			ex_viol(key, ord, cas, cmd, "ddiff %s %s%s printed '%s': the second operand is %s the first, so the sign must be '%s'",
				A->text, B->text, fmt_arg(f, fa, sizeof(fa)), txt, expect_neg ? "earlier than" : "not earlier than",
				expect_neg ? "-" : "none");
			viol_bind(slot, key);
			if (replay_mode) {
				printf("  sign: ddiff %s %s%s printed '%s', expected %s leading minus\n", A->text, B->text,
				       fmt_arg(f, fa, sizeof(fa)), txt, expect_neg ? "a" : "no");
			}
		}
		bad++;
	}
	if (f->pmode == P_UNITS) {
		units = txt + neg;
	} else {
		units = ubuf;
		if (to_units(f->pmode, txt + neg, ubuf, sizeof(ubuf)) < 0) {
			goto noparse;
		}
	}
	++*c_eval;
	if (dadd_apply(e->v, units, &res) < 0) {
	noparse:
		/* reading: dadd documents (test/dtadd.026, dtadd.028 pin it) that a duration
		 * component above 2^31-1 is rejected; such a printed duration cannot be applied */
		for (const char *q = txt + neg; *q; q++) {
			if (*q >= '0' && *q <= '9') {
				char *qe;
				long long x = strtoll(q, &qe, 10);
				if (x > 2147483647LL) {
					EX_CTR(c_big, "skipped:printed component exceeds 2^31-1, which dadd rejects by design (test/dtadd.026, dtadd.028)");
					++*c_big;
					return bad;
				}
				q = qe - 1;
			}
		}
		slot = &vslot[VK_PARSE][dt][fi][cal][expect_neg][0];
		if (!viol_fast(slot, ord) || replay_mode) {
			MKCAS();
			snprintf(key, sizeof(key), "parse fmt=%s cal=%s sign=%s", f->name, cal_name[cal], sg);
			snprintf(cmd, sizeof(cmd), "ddiff %s %s%s", A->text, B->text, fmt_arg(f, fa, sizeof(fa)));
			ex_viol(key, ord, cas, cmd, "ddiff %s %s%s printed '%s', which dadd's duration parser does not accept",
				A->text, B->text, fmt_arg(f, fa, sizeof(fa)), txt);
			viol_bind(slot, key);
			if (replay_mode) {
				printf("  ddiff %s %s%s printed '%s': not accepted by dadd's duration parser\n", A->text, B->text,
				       fmt_arg(f, fa, sizeof(fa)), txt);
			}
		}
		return bad + 1;
	}
	dadd_print(got, sizeof(got), res);
	/* a date-only operand against a date-time: the duration is in whole days between the
	 * two calendar dates (ddiff's type table: D - DT = d), so only the date must be hit */
	if (dt == 2 ? strncmp(got, l->canon, 10) || (got[10] && got[10] != 'T') : strcmp(got, l->canon)) {
		long off = val_rd(res) - l->rd;
		int oi = dt_unk_p(res) ? 5 : off == 0 ? 0 : off == 1 ? 1 : off == -1 ? 2 : off > 1 ? 3 : 4;
		static const char *const ob[6] = {"0", "+1", "-1", ">+1", "<-1", "invalid"};
		if (cc == CC_XCAL) {
			oi = 0;
		}
		slot = &vslot[cc == CC_XCAL ? VK_XCAL : VK_INV][dt][fi][cal][expect_neg][oi];
		if (!viol_fast(slot, ord) || replay_mode) {
			MKCAS();
			if (cc == CC_XCAL) {
				snprintf(key, sizeof(key), "xcal fmt=%s cal=%s sign=%s", f->name, cal_name[cal], sg);
			} else {
				snprintf(key, sizeof(key), "inv fmt=%s cal=%s sign=%s off=%s", f->name, cal_name[cal], sg, ob[oi]);
			}
			snprintf(cmd, sizeof(cmd), "ddiff %s %s%s; dadd %s %s", A->text, B->text, fmt_arg(f, fa, sizeof(fa)), e->text, units);
			ex_viol(key, ord, cas, cmd, "ddiff %s %s%s printed '%s'; dadd %s %s gives '%s', the later value is '%s'",
				A->text, B->text, fmt_arg(f, fa, sizeof(fa)), txt, e->text, units, got, l->canon);
			viol_bind(slot, key);
			if (replay_mode) {
				printf("  ddiff %s %s%s printed '%s'; dadd %s %s gives '%s', the later value is '%s'\n",
				       A->text, B->text, fmt_arg(f, fa, sizeof(fa)), txt, e->text, units, got, l->canon);
			}
		}
		bad++;
	} else if (replay_mode) {
		printf("  ddiff %s %s%s printed '%s'; dadd %s %s gives '%s' (the later value)\n",
		       A->text, B->text, fmt_arg(f, fa, sizeof(fa)), txt, e->text, units, got);
	}
	return bad;
#undef MKCAS
}

/* sign rule alone (business-day formats with a weekend operand): '-' iff the second operand is earlier,
 * not judged when every printed number is 0 */
static int
sign_only(const struct fmt_s *f, durfmt_t df, int fi, int cal, int dt, const struct val_s *e, const struct val_s *l)
{
	int bad = 0;
	EX_CTR(c_eval, "evaluations");
	EX_CTR(c_trans, "transitions");

	if (e->rd == l->rd && (dt != 1 || e->sec == l->sec)) {
		return 0;
	}
	for (int dir = 0; dir < 2; dir++) {
		const struct val_s *A = dir ? l : e, *B = dir ? e : l;
		char t[128], key[160], cas[96], cmd[256], fa[64];
		int n = ddiff_pipe(t, sizeof(t), f->fmt, df, A->v, B->v), nz = 0;
		struct ex_viol_s **slot = &vslot[VK_SIGN][dt][fi][cal][dir][0];
		double ord = (double)(l->rd - e->rd) + (dt == 1 ? (double)(l->sec - e->sec) / 86400.0 : 0.0);
		++*c_eval;
		++*c_trans;
		for (const char *q = t; n > 0 && *q; q++) {
			nz |= *q >= '1' && *q <= '9';
		}
		if (n < 0 || !nz || (t[0] == '-') == dir) {
			continue;
		}
		bad++;
		if (viol_fast(slot, ord) && !replay_mode) {
			continue;
		}
		snprintf(cas, sizeof(cas), "pair %d %d %d %d %d %d %d", dt, fi, cal, A->rd, A->sec, B->rd, B->sec);
		snprintf(key, sizeof(key), "sign fmt=%s cal=%s sign=%s", f->name, cal_name[cal], dir ? "-" : "+");
		snprintf(cmd, sizeof(cmd), "ddiff %s %s%s", A->text, B->text, fmt_arg(f, fa, sizeof(fa)));
		ex_viol(key, ord, cas, cmd, "ddiff %s %s%s printed '%s': the second operand is %s the first, so the sign must be '%s'",
			A->text, B->text, fmt_arg(f, fa, sizeof(fa)), t, dir ? "earlier than" : "not earlier than", dir ? "-" : "none");
		viol_bind(slot, key);
		if (replay_mode) {
			printf("  sign: ddiff %s %s%s printed '%s', expected %s leading minus\n", A->text, B->text,
			       fmt_arg(f, fa, sizeof(fa)), t, dir ? "a" : "no");
		}
	}
	return bad;
}

/* the unordered pair {e <= l}: both directions through ddiff */
static int
do_pair(const struct fmt_s *f, durfmt_t df, int fi, int cal, int dt, const struct val_s *e, const struct val_s *l)
{
	char t1[128], t2[128], key[160], cas[96], cmd[256], fa[64];
	const char *why;
	int n1, n2, bad = 0;
	int cc = dt == 1 ? combo_t[fi][cal] : combo_d[fi][cal];
	EX_CTR(c_eval, "evaluations");
	EX_CTR(c_trans, "transitions");
	EX_CTR(c_nontriv, "nontrivial");
	EX_CTR(c_nomon, "skipped:months applied to a ywd/yd operand (dt_dadd_m: these calendars have no notion of months)");
	EX_CTR(c_ywdb, "skipped:business days applied to a ywd operand (unimplemented in dadd: C07's finding, not judged here)");

	if (cal >= CAL_EPOCH && (e->rd >= 910674 || l->rd >= 910674)) {
		/* the tools print an epoch value of a day beyond 4094-05-04 as 0000-00-00 (day count > 910674: C01's finding) */
		EX_CTR(c_unpr, "skipped:epoch-held operand beyond the range the tools can print (0000-00-00 after 4094-05-04: C01's finding)");
		++*c_unpr;
		return 0;
	}
	if (cc == CC_NOMON) {
		++*c_nomon;
		return 0;
	} else if (cc == CC_YWDB) {
		++*c_ywdb;
		return 0;
	}
	if (dt != 1 && (f->units & (U_H | U_MI | U_S))) {
		/* reading: dadd leaves a date-only value alone when hours, minutes or seconds are added, whole days' worth
		 * included, and the repository's tests pin that (test/dadd.029, dadd.030: `dadd 2001-01-05 48h` = 2001-01-05;
		 * dtadd.054); so a date difference printed in such units cannot be applied to a date: outside, counted */
		EX_CTR(c_dh, "skipped:hours/minutes/seconds applied to a date-only value (dadd ignores them by design: test/dadd.029, dadd.030, dtadd.054)");
		++*c_dh;
		return 0;
	}
	if ((why = outside(f, e, l, dt)) != NULL) {
		count_skip(why);
		if (why == SK_BD) {
			/* the inverse is not claimed from or to a weekend day, the sign is */
			return sign_only(f, df, fi, cal, dt, e, l);
		}
		return 0;
	}
	n1 = ddiff_pipe(t1, sizeof(t1), f->fmt, df, e->v, l->v);
	++*c_eval;
	++*c_trans;
	ex_outcome(ex_hash_mix(ex_hash(t1, (size_t)(n1 > 0 ? n1 : 0)), (uint64_t)(fi * 8 + cal + 1000 * dt)));
	{
		const struct rc_day *pe = rc_get(e->rd), *pl = rc_get(l->rd);
		if (pl->d < pe->d || pl->yday < pe->yday || pl->wd < pe->wd || (dt == 1 && l->sec < e->sec)) {
			++*c_nontriv;
		}
	}
	bad += judge(f, fi, cal, dt, cc, e, l, e, l, n1, t1, 0);
	if (e->rd == l->rd && (dt == 2 || e->sec == l->sec)) {
		return bad;
	}
	n2 = ddiff_pipe(t2, sizeof(t2), f->fmt, df, l->v, e->v);
	++*c_eval;
	++*c_trans;
	if (n1 >= 0 && n2 == n1 + 1 && t2[0] == '-' && !memcmp(t2 + 1, t1, (size_t)n1)) {
		/* ddiff(B,A) = -ddiff(A,B): same duration text, so the application
		 * is the same computation; a failure above is a failure here too */
		if (bad) {
			bad += judge(f, fi, cal, dt, cc, l, e, e, l, n2, t2, 1);
		}
		return bad;
	}
	snprintf(key, sizeof(key), "antisym fmt=%s cal=%s", f->name, cal_name[cal]);
	snprintf(cas, sizeof(cas), "pair %d %d %d %d %d %d %d", dt, fi, cal, e->rd, e->sec, l->rd, l->sec);
	snprintf(cmd, sizeof(cmd), "ddiff %s %s%s; ddiff %s %s%s", e->text, l->text, fmt_arg(f, fa, sizeof(fa)),
		 l->text, e->text, fmt_arg(f, fa, sizeof(fa)));
	ex_viol(key, (double)(l->rd - e->rd) + (dt == 1 ? (double)(l->sec - e->sec) / 86400.0 : 0.0), cas, cmd,
		"ddiff %s %s%s printed '%s' but with the operands swapped '%s' (must be the same with the sign flipped)",
		e->text, l->text, fmt_arg(f, fa, sizeof(fa)), t1, t2);
	if (replay_mode) {
		printf("  antisymmetry: ddiff %s %s printed '%s', swapped '%s'\n", e->text, l->text, t1, t2);
	}
	bad++;
	bad += judge(f, fi, cal, dt, cc, l, e, e, l, n2, t2, 1);
	return bad;
}

/* ---- binding: the ddiff and dadd binaries ---- */
static const int bind_anchor[][3] = {
	{2000, 2, 28}, {2000, 2, 29}, {2000, 3, 1}, {2001, 2, 28}, {2001, 3, 1}, {1999, 12, 31}, {2000, 1, 1}, {2004, 12, 27},
	{2005, 1, 2}, {1900, 2, 28}, {1900, 3, 1}, {2003, 1, 31}, {2003, 3, 31}, {2004, 1, 15}, {2004, 7, 30}, {2009, 12, 28},
	{2010, 1, 3}, {1601, 1, 1}, {4095, 12, 31}, {2012, 6, 30},
};
#define NANCHOR		((int)(sizeof(bind_anchor) / sizeof(*bind_anchor)))
#define BIND_K		50

static char*
slurp(const char *fn)
{
	FILE *f = fopen(fn, "r");
	char *b;
	long sz;
	if (f == NULL) {
		return NULL;
	}
	fseek(f, 0, SEEK_END);
	sz = ftell(f);
	fseek(f, 0, SEEK_SET);
	b = malloc((size_t)sz + 1);
	if (fread(b, 1, (size_t)sz, f) != (size_t)sz) {
		sz = 0;
	}
	b[sz] = '\0';
	fclose(f);
	return b;
}

/* one (format, calendar, anchor): ddiff ANCHOR with all partners on stdin in one process,
 * then one dadd process per pair that is inside the property */
static void
do_binding(int fi, int cal, int ai, int slot)
{
	const struct fmt_s *f = dfmts + fi;
	const char *rundir = getenv("VERIF_RUNDIR");
	char fin[512], fout[512], fsh[512], cmd[2048], key[200], cas[96], fa[64];
	struct run_s r = {0, 0, NULL};
	int ard = rc_rd(bind_anchor[ai][0], bind_anchor[ai][1], bind_anchor[ai][2]);
	FILE *fp, *sh;
	char *out, *line, *save;
	int i, nexp = 0;
	struct { int idx; char got[64]; } *exp;
	EX_CTR(c_bind, "cli_binding_replays");

	if (rundir == NULL || ex.tree == NULL) {
		return;
	}
	prep_run(&r, cal, ard - BIND_K, ard + BIND_K);
	snprintf(fin, sizeof(fin), "%s/c05b.%d.in", rundir, slot);
	snprintf(fout, sizeof(fout), "%s/c05b.%d.out", rundir, slot);
	snprintf(fsh, sizeof(fsh), "%s/c05b.%d.sh", rundir, slot);
	if ((fp = fopen(fin, "w")) == NULL) {
		return;
	}
	for (i = 0; i < r.n; i++) {
		fprintf(fp, "%s\n", r.a[i].text);
	}
	fclose(fp);
	{
		const struct val_s *A = r.a + (ard - r.lo);
		snprintf(cmd, sizeof(cmd), "'%s/src/ddiff' '%s'%s < '%s' > '%s' 2>&1", ex.tree, A->text, fmt_arg(f, fa, sizeof(fa)), fin, fout);
		if (system(cmd)) {
			;
		}
		++*c_bind;
		snprintf(key, sizeof(key), "binding ddiff fmt=%s cal=%s", f->name, cal_name[cal]);
		if ((out = slurp(fout)) == NULL) {
			ex_viol(key, 0, "", cmd, "no output from the binary");
			free(r.a);
			return;
		}
		exp = calloc((size_t)r.n, sizeof(*exp));
		sh = fopen(fsh, "w");
		line = strtok_r(out, "\n", &save);
		for (i = 0; i < r.n; i++) {
			const struct val_s *B = r.a + i;
			const struct val_s *e = B->rd < A->rd ? B : A, *l = B->rd < A->rd ? A : B;
			char t[128], units[128];
			struct dt_dt_s res;
			int n = ddiff_pipe(t, sizeof(t), f->fmt, dfmt_of[fi], A->v, B->v);
			snprintf(cas, sizeof(cas), "bind %d %d %d %d", fi, cal, ai, i);
			if (n < 0) {
				continue;
			}
			if (line == NULL || strcmp(line, t)) {
				ex_viol(key, abs(B->rd - A->rd), cas, cmd, "ddiff %s %s%s: the binary printed '%s', the included pipeline '%s'",
					A->text, B->text, fmt_arg(f, fa, sizeof(fa)), line ? line : "(nothing)", t);
			}
			if (line) {
				line = strtok_r(NULL, "\n", &save);
			}
			if (outside(f, e, l, 0) || to_units(f->pmode, t + (t[0] == '-'), units, sizeof(units)) < 0 ||
			    dadd_apply(e->v, units, &res) < 0) {
				continue;
			}
			exp[nexp].idx = i;
			dadd_print(exp[nexp].got, sizeof(exp[nexp].got), res);
			nexp++;
			/* an empty line stands for "printed nothing" */
			fprintf(sh, "'%s/src/dadd' '%s' %s 2>&1 || echo\n", ex.tree, e->text, units);
		}
		free(out);
		fclose(sh);
	}
	snprintf(cmd, sizeof(cmd), "sh '%s' > '%s'", fsh, fout);
	if (system(cmd)) {
		;
	}
	snprintf(key, sizeof(key), "binding dadd fmt=%s cal=%s", f->name, cal_name[cal]);
	if ((out = slurp(fout)) != NULL) {
		char *p = out;
		for (i = 0; i < nexp; i++) {
			char *nl = strchr(p, '\n');
			const struct val_s *B = r.a + exp[i].idx;
			if (nl) {
				*nl = '\0';
			}
			++*c_bind;
			snprintf(cas, sizeof(cas), "bind %d %d %d %d", fi, cal, ai, exp[i].idx);
			if (strcmp(p, exp[i].got)) {
				ex_viol(key, abs(B->rd - ard), cas, NULL, "pair %s %s fmt %s: the dadd binary printed '%s', dt_dtadd at library level gave '%s'",
					r.a[ard - r.lo].text, B->text, f->name, p, exp[i].got);
			}
			p = nl ? nl + 1 : p + strlen(p);
		}
		free(out);
	}
	free(exp);
	free(r.a);
	unlink(fin);
	unlink(fout);
	unlink(fsh);
}

/* boundary days of part (iii) */
static int
tdays(int *rd)
{
	static const int ys[4] = {1900, 2000, 2003, 2004};
	static const int ye[3] = {1999, 2003, 2004};
	int n = 0;
	for (int i = 0; i < 4; i++) {
		int b = rc_rd(ys[i], 2, 27);
		int e = rc_rd(ys[i], 3, 2);
		for (int d = b; d <= e && n < 60; d++) {
			rd[n++] = d;
		}
	}
	for (int i = 0; i < 3; i++) {
		int b = rc_rd(ye[i], 12, 30);
		for (int d = b; d < b + 4; d++) {
			rd[n++] = d;
		}
	}
	rd[n++] = rc_rd(1601, 1, 1);
	rd[n++] = rc_rd(1601, 1, 2);
	rd[n++] = rc_rd(4095, 12, 30);
	rd[n++] = rc_rd(4095, 12, 31);
	rd[n++] = rc_rd(2012, 6, 30);
	rd[n++] = rc_rd(2012, 7, 1);
	rd[n++] = rc_rd(2000, 6, 15);
	rd[n++] = rc_rd(2000, 10, 29);
	/* two full weeks, so that every pair of weekdays occurs with every pair of times of day */
	for (int d = rc_rd(2026, 2, 2), k = 0; k < 14; k++) {
		rd[n++] = d + k;
	}
	/* sort ascending (insertion) */
	for (int i = 1; i < n; i++) {
		int x = rd[i], j = i;
		while (j > 0 && rd[j - 1] > x) {
			rd[j] = rd[j - 1];
			j--;
		}
		rd[j] = x;
	}
	return n;
}

/* operand representations behind a calendar key: (calendar of the text, date-only?) of the earlier and the later operand */
static void
key_reps(int cal, int dt, int *ce, int *de, int *cl, int *dl)
{
	*ce = *cl = cal < NCAL ? cal : CAL_YMD;
	*de = *dl = dt == 0;
	switch (cal) {
	case CAL_EPOCH: *ce = *cl = CAL_EPOCH; break;
	case CAL_EP_YMD: *ce = CAL_EPOCH; break;
	case CAL_YMD_EP: *cl = CAL_EPOCH; break;
	case CAL_DATE_YMD: *de = 1, *dl = 0; break;
	case CAL_YMD_DATE: *de = 0, *dl = 1; break;
	case CAL_DATE_EP: *de = 1, *dl = 0, *cl = CAL_EPOCH; break;
	case CAL_EP_DATE: *de = 0, *dl = 1, *ce = CAL_EPOCH; break;
	default: break;
	}
}

/* fixed-unit date formats used for unlike operands (date-only against date-time) */
static const int mixfmt[] = {0, 1, 2, 3, 4, 6, 7};
#define NMIXFMT	((int)(sizeof(mixfmt) / sizeof(*mixfmt)))

int
main(int argc, char *argv[])
{
	EX_CTR(c_states, "states");
	EX_CTR(c_traces, "traces");
	int nwin, K, slice = 0;

	ex_init(argc, argv);
	rc_selfcheck();
	for (int i = 0; i < NDFMT; i++) {
		dfmt_of[i] = determine_durfmt(dfmts[i].fmt);
	}
	for (int i = 0; i < NTFMT; i++) {
		tfmt_of[i] = determine_durfmt(tfmts[i].fmt);
	}
	for (int c = 0; c < NCAL; c++) {
		for (int i = 0; i < NDFMT; i++) {
			combo_d[i][c] = combo_class(dfmts + i, dfmt_of[i], c, 0);
		}
		for (int i = 0; i < NTFMT; i++) {
			combo_t[i][c] = c == CAL_YD ? CC_IN : combo_class(tfmts + i, tfmt_of[i], c, 1);
		}
	}

	if (ex.cas) {
		int dt, fi, cal, ra, sa, rb, sb, bad;
		struct val_s A, B;
		replay_mode = 1;
		if (!strncmp(ex.cas, "bind ", 5)) {
			int ai, idx;
			if (sscanf(ex.cas + 5, "%d %d %d %d", &fi, &cal, &ai, &idx) != 4 || fi < 0 || fi >= NDFMT || cal < 0 || cal > CAL_EPOCH ||
			    ai < 0 || ai >= NANCHOR) {
				return ex_replay_result(1, "bad case '%s'", ex.cas);
			}
			/* replay of a binding mismatch: run both binaries on that one pair */
			{
				char cmd[1024], fa[64], l1[256] = "", l2[256] = "", t[128], units[128], got[64] = "";
				int ard = rc_rd(bind_anchor[ai][0], bind_anchor[ai][1], bind_anchor[ai][2]);
				struct dt_dt_s res;
				const struct val_s *e, *l;
				FILE *pp;
				prep_val(&A, cal, ard, -1);
				{
					int lo = ard - BIND_K < 0 ? 0 : ard - BIND_K;
					int rb = lo + idx >= RC_NDAYS ? RC_NDAYS - 1 : lo + idx;
					prep_val(&B, cal, rb, -1);
				}
				e = B.rd < A.rd ? &B : &A;
				l = B.rd < A.rd ? &A : &B;
				ddiff_pipe(t, sizeof(t), dfmts[fi].fmt, dfmt_of[fi], A.v, B.v);
				snprintf(cmd, sizeof(cmd), "'%s/src/ddiff' '%s' '%s'%s 2>&1", ex.tree, A.text, B.text, fmt_arg(dfmts + fi, fa, sizeof(fa)));
				if ((pp = popen(cmd, "r"))) {
					if (fgets(l1, sizeof(l1), pp)) {
						l1[strcspn(l1, "\n")] = '\0';
					}
					pclose(pp);
				}
				printf("  ddiff binary '%s', included pipeline '%s'\n", l1, t);
				bad = strcmp(l1, t) != 0;
				if (!outside(dfmts + fi, e, l, 0) && to_units(dfmts[fi].pmode, t + (t[0] == '-'), units, sizeof(units)) == 0 &&
				    dadd_apply(e->v, units, &res) == 0) {
					dadd_print(got, sizeof(got), res);
					snprintf(cmd, sizeof(cmd), "'%s/src/dadd' '%s' %s 2>&1", ex.tree, e->text, units);
					if ((pp = popen(cmd, "r"))) {
						if (fgets(l2, sizeof(l2), pp)) {
							l2[strcspn(l2, "\n")] = '\0';
						}
						pclose(pp);
					}
					printf("  dadd binary '%s', library level '%s'\n", l2, got);
					bad |= strcmp(l2, got) != 0;
				}
				return ex_replay_result(bad, "binding fmt=%s cal=%s %s %s", dfmts[fi].name, cal_name[cal], A.text, B.text);
			}
		}
		if (sscanf(ex.cas, "pair %d %d %d %d %d %d %d", &dt, &fi, &cal, &ra, &sa, &rb, &sb) != 7 || cal < 0 || cal >= NCALX ||
		    dt < 0 || dt > 2 || fi < 0 || fi >= (dt == 1 ? NTFMT : NDFMT) || ra < 0 || rb < 0 || ra >= RC_NDAYS || rb >= RC_NDAYS) {
			return ex_replay_result(1, "bad case '%s'", ex.cas);
		}
		{
			/* A is the earlier one of the two */
			int a_first = dt == 2 ? (ra < rb || (ra == rb && sa < 0)) : (ra < rb || (ra == rb && sa <= sb));
			int ce, de, cl, dl;
			key_reps(cal, dt, &ce, &de, &cl, &dl);
			if (a_first) {
				prep_val(&A, ce, ra, de ? -1 : (sa < 0 ? 0 : sa));
				prep_val(&B, cl, rb, dl ? -1 : (sb < 0 ? 0 : sb));
			} else {
				prep_val(&B, ce, rb, de ? -1 : (sb < 0 ? 0 : sb));
				prep_val(&A, cl, ra, dl ? -1 : (sa < 0 ? 0 : sa));
			}
			bad = do_pair(dt == 1 ? tfmts + fi : dfmts + fi, dt == 1 ? tfmt_of[fi] : dfmt_of[fi], fi, cal, dt,
				      a_first ? &A : &B, a_first ? &B : &A);
		}
		return ex_replay_result(bad != 0, "fmt=%s cal=%s %s %s", dt == 1 ? tfmts[fi].name : dfmts[fi].name, cal_name[cal], A.text, B.text);
	}

	nwin = ex.thorough ? 4 : 1;
	WIN_YEARS = ex.thorough ? 8 : 4;
	if (!ex.thorough) {
		/* 1998 has 53 ISO weeks, 2000 is the leap century year */
		win_y0[0] = 1998;
	}
	K = ex.thorough ? 100 : 20;
	ex_meta("rule", "states = days of the reference calendar, transitions = ordered pairs (A,B) run through ddiff's own pipeline "
		"(ddiff.c included: determine_durfmt, determine_durtype, dt_dtdiff, __strfdtdur); the printed duration, sign stripped, is given "
		"token by token to dadd's parser (dt_io_strpdtdur) and applied to the earlier value by dt_dtadd in printed order; the result as "
		"dadd prints it must be the later value (text of the later day in the input calendar after one parse/print pass); '-' iff the "
		"second operand is earlier; ddiff(B,A) = '-' ddiff(A,B). Formats carry unit suffixes so that dadd can read them; the calendar-named "
		"formats (ymd ymcw ywd yd bizda) are read positionally. Readings: month/year formats only for dates with earlier day-of-month <= 28; "
		"business-day formats only when both operands are Monday..Friday; a format without days (weeks only, months only, years only, or a "
		"date-time format whose finest unit does not divide the distance) only for pairs where nothing finer is needed; time-only operands "
		"and %%rS (C14) are not enumerated; a date-only operand against a date-time: the duration counts whole days between the two calendar dates "
		"(ddiff's type table D - DT = d), only the date must be hit; business-day formats with a weekend operand: only the sign is judged. non-trivial = the later day has a smaller day-of-month, day-of-year, weekday or time of day "
		"than the earlier one (a borrow in the difference)");
	ex_meta("bound", "(i) all pairs inside %d window(s) of %d years (%s) x %d date formats x 4 input calendars (ymd ywd yd ymcw), both directions; "
		"(ii) every day 1601-01-01..4095-12-31 x partner at distance 1..%d x %d (calendar, format) combinations; "
		"(iii) %s boundary days x 7 times of day, all pairs x %d date-time formats x 3 calendars, and the same instants epoch-held (@N): both operands, and either one against the civil date-time; "
		"(v) each of these days as a date-only operand against every one of the date-times (civil and epoch-held) x 7 whole-day formats; "
		"(iv) binding: %d anchor days x distance -%d..%d x %d formats (ymd) + 6 formats in the other calendars through the ddiff and dadd binaries",
		nwin, WIN_YEARS, ex.thorough ? "1997-2004, 1897-1904, 1601-1608, 4088-4095" : "1998-2001", NDFMT, K, NLONG,
		"54", NTFMT, ex.thorough ? NANCHOR : 6, BIND_K, BIND_K, NDFMT);
	ex_meta("binding", "ddiff ANCHOR < partners (one process per anchor and format) byte-compared with the included pipeline; "
		"dadd EARLIER <printed duration> (one process per pair) byte-compared with dt_dtadd's result at library level");

	/* (i) windows */
	for (int w = 0; w < nwin; w++) {
		struct run_s run[NCAL] = {{0, 0, NULL}, {0, 0, NULL}, {0, 0, NULL}, {0, 0, NULL}};
		int lo = rc_yearstart[win_y0[w]], hi = rc_yearstart[win_y0[w] + WIN_YEARS] - 1;
		int prepared = 0;
		for (int a = lo; a <= hi && !ex_expired(); a++, slice++) {
			if (!ex_mine((uint64_t)slice)) {
				continue;
			}
			if (!prepared) {
				for (int c = 0; c < NCAL; c++) {
					prep_run(run + c, c, lo, hi);
				}
				prepared = 1;
			}
			++*c_states;
			for (int c = 0; c < NCAL; c++) {
				const struct val_s *e = run[c].a + (a - lo);
				for (int b = a; b <= hi; b++) {
					const struct val_s *l = run[c].a + (b - lo);
					for (int fi = 0; fi < NDFMT; fi++) {
						do_pair(dfmts + fi, dfmt_of[fi], fi, c, 0, e, l);
					}
				}
				if (ex_expired()) {
					break;
				}
			}
			++*c_traces;
			if (ex_want_sample()) {
				ex_sample("window %d-%d: day %s with every later day of the window x %d formats x 4 calendars, both directions",
					  win_y0[w], win_y0[w] + WIN_YEARS - 1, run[0].a[a - lo].text, NDFMT);
			}
		}
		for (int c = 0; c < NCAL; c++) {
			free(run[c].a);
		}
	}
	/* (ii) the whole range, by year */
	for (int y = RC_MIN_YEAR; y <= RC_MAX_YEAR && !ex_expired(); y++, slice++) {
		struct run_s run[NCAL] = {{0, 0, NULL}, {0, 0, NULL}, {0, 0, NULL}, {0, 0, NULL}};
		int lo = rc_yearstart[y], hi = rc_yearstart[y + 1] - 1;
		if (!ex_mine((uint64_t)slice)) {
			continue;
		}
		for (int c = 0; c < NCAL; c++) {
			prep_run(run + c, c, lo, hi + K);
		}
		for (int a = lo; a <= hi; a++) {
			++*c_states;
			for (int k = 1; k <= K && a + k < RC_NDAYS; k++) {
				for (int j = 0; j < NLONG; j++) {
					int c = longs[j].cal, fi = longs[j].fi;
					do_pair(dfmts + fi, dfmt_of[fi], fi, c, 0, run[c].a + (a - lo), run[c].a + (a + k - lo));
				}
			}
		}
		++*c_traces;
		if (ex_want_sample()) {
			ex_sample("year %d: every day with the days 1..%d later x %d (calendar, format) combinations, both directions", y, K, NLONG);
		}
		for (int c = 0; c < NCAL; c++) {
			free(run[c].a);
		}
	}
	/* (iii) date-times */
	{
		int rd[64], nd = tdays(rd), ni = nd * 7;
		struct val_s *iv[NTCAL] = {NULL, NULL, NULL}, *ive = NULL;
		for (int i = 0; i < ni && !ex_expired(); i++, slice++) {
			if (!ex_mine((uint64_t)slice)) {
				continue;
			}
			if (iv[0] == NULL) {
				for (int c = 0; c < NTCAL; c++) {
					iv[c] = calloc((size_t)ni, sizeof(**iv));
					for (int k = 0; k < ni; k++) {
						prep_val(iv[c] + k, tcals[c], rd[k / 7], T7[k % 7]);
					}
				}
			}
			++*c_states;
			for (int c = 0; c < NTCAL; c++) {
				for (int j = i; j < ni; j++) {
					for (int fi = 0; fi < NTFMT; fi++) {
						do_pair(tfmts + fi, tfmt_of[fi], fi, tcals[c], 1, iv[c] + i, iv[c] + j);
					}
				}
			}
			/* the same instants held as epoch values (@N): both, and either one against the civil date-time */
			if (ive == NULL) {
				ive = calloc((size_t)ni, sizeof(*ive));
				for (int k = 0; k < ni; k++) {
					prep_val(ive + k, CAL_EPOCH, rd[k / 7], T7[k % 7]);
				}
			}
			for (int j = i; j < ni; j++) {
				for (int fi = 0; fi < NTFMT; fi++) {
					do_pair(tfmts + fi, tfmt_of[fi], fi, CAL_EPOCH, 1, ive + i, ive + j);
					do_pair(tfmts + fi, tfmt_of[fi], fi, CAL_EP_YMD, 1, ive + i, iv[0] + j);
					if (j > i) {
						do_pair(tfmts + fi, tfmt_of[fi], fi, CAL_YMD_EP, 1, iv[0] + i, ive + j);
					}
				}
			}
			/* (v) a date-only operand against date-times (civil and epoch-held), whole-day formats */
			if (i % 7 == 0) {
				struct val_s D;
				prep_val(&D, CAL_YMD, rd[i / 7], -1);
				for (int j = 0; j < ni; j++) {
					for (int k = 0; k < NMIXFMT; k++) {
						int fi = mixfmt[k];
						if (D.rd <= iv[0][j].rd) {
							do_pair(dfmts + fi, dfmt_of[fi], fi, CAL_DATE_YMD, 2, &D, iv[0] + j);
							do_pair(dfmts + fi, dfmt_of[fi], fi, CAL_DATE_EP, 2, &D, ive + j);
						} else {
							do_pair(dfmts + fi, dfmt_of[fi], fi, CAL_YMD_DATE, 2, iv[0] + j, &D);
							do_pair(dfmts + fi, dfmt_of[fi], fi, CAL_EP_DATE, 2, ive + j, &D);
						}
					}
				}
			}
			++*c_traces;
			if (ex_want_sample()) {
				ex_sample("date-time %s with every later instant of the %d x %d formats x 3 calendars + epoch-held (@N) + mixed, both directions", iv[0][i].text, ni, NTFMT);
			}
		}
	}
	/* (iv) binding */
	{
		static const struct { int cal; int fi; } xb[] = {
			{CAL_YWD, 18}, {CAL_YWD, 4}, {CAL_YD, 17}, {CAL_YD, 1}, {CAL_YMCW, 15}, {CAL_YMCW, 9},
			{CAL_EPOCH, 1}, {CAL_EPOCH, 6}, {CAL_EPOCH, 0},
		};
		int na = ex.thorough ? NANCHOR : 6;
		for (int fi = 0; fi < NDFMT + 9 && !ex_expired(); fi++) {
			for (int ai = 0; ai < na; ai++, slice++) {
				if (!ex_mine((uint64_t)slice)) {
					continue;
				}
				if (fi < NDFMT) {
					do_binding(fi, CAL_YMD, ai, slice);
				} else {
					do_binding(xb[fi - NDFMT].fi, xb[fi - NDFMT].cal, ai, slice);
				}
			}
		}
	}
	return ex_finish();
}
