"""Driver: build, run workers, merge, match known findings, write evidence (DESIGN.md §3)."""
import json
import os
import shutil
import signal
import subprocess
import sys
import time

import build
from checks import CHECKS

VERIF = build.VERIF
EVIDENCE = os.path.join(VERIF, "evidence")
REPLAY = os.path.join(VERIF, "replay")
FINDINGS = os.path.join(VERIF, "known-findings.jsonl")
NCPU = min(16, os.cpu_count() or 1)

ASAN_OPTIONS = ("halt_on_error=0:detect_leaks=0:handle_segv=0:handle_abort=0:handle_sigfpe=0:"
                "handle_sigill=0:handle_sigbus=0:symbolize=0:allocator_may_return_null=1:"
                "detect_stack_use_after_return=0:print_summary=0:print_legend=0")


def broken(msg):
    print("BROKEN-CHECK: " + msg)
    sys.stdout.flush()
    return 3


def load_findings():
    out = []
    if os.path.exists(FINDINGS):
        with open(FINDINGS) as f:
            for ln in f:
                ln = ln.strip()
                if ln.startswith("{"):
                    out.append(json.loads(ln))
    return out


def match_finding(pid, v, findings, tier=None):
    """a known entry suppresses an aggregated violation only if the class key is
    the same, the violation's ordered coordinate range lies inside the entry's and
    no more cases fail than the entry records for this tier"""
    for f in findings:
        if f.get("status") != "known" or f.get("property") != pid:
            continue
        if f.get("key") != v["key"]:
            continue
        if "lo" in f and v["lo"] < f["lo"]:
            continue
        if "hi" in f and v["hi"] > f["hi"]:
            continue
        nmax = f.get("n")
        if isinstance(nmax, dict):
            nmax = nmax.get(tier)
        if nmax is not None and v["n"] > nmax:
            continue
        return f
    return None


def env_for(variant, rundir):
    env = dict(os.environ)
    env["ASAN_OPTIONS"] = ASAN_OPTIONS
    env["LC_ALL"] = "C"
    env.pop("TZ", None)
    env["VERIF_RUNDIR"] = rundir
    return env


def run_part(pid, part, tier, tree_by_variant, rundir, deadline):
    """run all workers of one explorer; returns (records, complete, wall, crashes)"""
    variant = part.get("variant", "plain")
    tree = tree_by_variant[variant]
    exe = os.path.join(rundir, part["name"])
    build.compile_explorer(tree, variant, part["src"], exe, part.get("cflags", ()))
    W = min(NCPU, part.get("workers", NCPU))
    procs = []
    t0 = time.time()
    for i in range(W):
        out = open(os.path.join(rundir, "%s.%d.out" % (part["name"], i)), "w")
        err = open(os.path.join(rundir, "%s.%d.err" % (part["name"], i)), "w")
        cmd = [exe, "--tier", tier, "--worker", str(i), "--nworkers", str(W),
               "--deadline", str(deadline), "--bitmap", os.path.join(rundir, "%s.%d.bm" % (part["name"], i)),
               "--tree", tree] + list(part.get("args", ()))
        p = subprocess.Popen(cmd, stdout=out, stderr=err, cwd=tree, env=env_for(variant, rundir),
                             start_new_session=True)
        procs.append((p, out, err, cmd))
    hard = t0 + deadline + 120
    crashes = []
    for i, (p, out, err, cmd) in enumerate(procs):
        try:
            rc = p.wait(timeout=max(1, hard - time.time()))
        except subprocess.TimeoutExpired:
            try:
                os.killpg(p.pid, signal.SIGKILL)
            except OSError:
                pass
            p.wait()
            rc = -9
            crashes.append((i, "hard timeout (deadline %ds + 120s grace)" % deadline, cmd))
        out.close()
        err.close()
        if rc == 3:
            msg = open(os.path.join(rundir, "%s.%d.err" % (part["name"], i)), errors="replace").read()[-2000:]
            raise build.BuildError("explorer %s reports itself broken (exit 3):\n%s" % (part["name"], msg))
        if rc not in (0, -9):
            crashes.append((i, "exit status %d" % rc, cmd))
    wall = time.time() - t0
    recs = []
    complete = True
    for i in range(W):
        fn = os.path.join(rundir, "%s.%d.out" % (part["name"], i))
        done = False
        with open(fn, errors="replace") as f:
            for ln in f:
                ln = ln.strip()
                if not ln.startswith("{"):
                    continue
                try:
                    r = json.loads(ln)
                except ValueError:
                    continue
                r["_w"] = i
                if r["t"] == "done":
                    done = True
                    if not r.get("complete"):
                        complete = False
                recs.append(r)
        if not done:
            complete = False
            if not any(c[0] == i for c in crashes):
                crashes.append((i, "no completion record", procs[i][3]))
    # union of outcome bitmaps
    bm = None
    for i in range(W):
        fn = os.path.join(rundir, "%s.%d.bm" % (part["name"], i))
        if os.path.exists(fn):
            b = int.from_bytes(open(fn, "rb").read(), "little")
            bm = b if bm is None else (bm | b)
    outcomes = bin(bm).count("1") if bm else 0
    return recs, complete, wall, crashes, outcomes, W


def merge(parts_out):
    ctr = {}
    meta = {}
    samples = []
    viols = {}
    for pname, recs in parts_out:
        for r in recs:
            t = r["t"]
            if t == "ctr":
                ctr[r["k"]] = ctr.get(r["k"], 0) + r["v"]
            elif t == "meta":
                meta.setdefault(r["k"], []).append("%s: %s" % (pname, r["v"]) if len(parts_out) > 1 else r["v"])
            elif t == "sample":
                samples.append((pname, r["_w"], r["v"]))
            elif t == "viol":
                key = "%s|%s" % (pname, r["key"]) if len(parts_out) > 1 else r["key"]
                v = viols.get(key)
                cas = "%s:%s" % (pname, r["case"])
                if v is None:
                    viols[key] = dict(key=key, n=r["n"], ord=r["ord"], lo=r["lo"], hi=r["hi"],
                                      case=cas, detail=r["detail"], cmd=r.get("cmd"), part=pname)
                else:
                    v["n"] += r["n"]
                    v["lo"] = min(v["lo"], r["lo"])
                    v["hi"] = max(v["hi"], r["hi"])
                    if r["ord"] < v["ord"]:
                        v.update(ord=r["ord"], case=cas, detail=r["detail"], cmd=r.get("cmd"))
    return ctr, meta, samples, viols


def safe_name(s):
    return "".join(c if c.isalnum() or c in "-_." else "_" for c in s)[:120]


def write_evidence(pid, cfg, tier, seed, cov, wall, nviol, extra):
    os.makedirs(EVIDENCE, exist_ok=True)
    ev = {
        "property_id": pid,
        "tier": tier,
        "seed": seed,
        "level": cfg["level"],
        "coverage": cov,
        "assumptions": cfg.get("assumptions", []),
        "wall_s": round(wall, 2),
        "violations": nviol,
    }
    ev.update(extra)
    tmp = os.path.join(EVIDENCE, pid + ".json.tmp")
    with open(tmp, "w") as f:
        json.dump(ev, f, indent=1, sort_keys=False)
        f.write("\n")
    os.replace(tmp, os.path.join(EVIDENCE, pid + ".json"))


def run_check(pid, tier):
    cfg = CHECKS[pid]
    seed = int(os.environ.get("VERIF_SEED", "0") or 0)
    t0 = time.time()
    deadline = float(os.environ.get("VERIF_DEADLINE_S", 0) or 0) or cfg.get("deadline", {}).get(tier, 240 if tier == "quick" else 3000)
    rundir = os.path.join(build.SCRATCH, "run.%d" % os.getpid())
    os.makedirs(rundir, exist_ok=True)
    try:
        trees = {}
        hsh = None
        for variant in sorted(set(p.get("variant", "plain") for p in cfg["parts"])):
            try:
                trees[variant], hsh = build.ensure(variant)
            except build.BuildError as e:
                return broken("build of %s failed: %s" % (build.REPO, e))
        parts_out = []
        complete = True
        crashes = []
        outcomes = 0
        nparts = len(cfg["parts"])
        part_walls = {}
        for part in cfg["parts"]:
            if tier not in part.get("tiers", ("quick", "thorough")):
                continue
            remaining = max(10.0, deadline - (time.time() - t0))
            share = part.get("share", 1.0 / nparts)
            pdl = min(remaining, max(10.0, deadline * share)) if nparts > 1 else remaining
            try:
                recs, comp, wall, cr, oc, W = run_part(pid, part, tier, trees, rundir, pdl)
            except build.BuildError as e:
                return broken(str(e))
            parts_out.append((part["name"], recs))
            complete = complete and comp
            crashes += [(part["name"],) + c for c in cr]
            outcomes += oc
            part_walls[part["name"]] = round(wall, 2)
        ctr, meta, samples, viols = merge(parts_out)
        findings = load_findings()
        known_hit = {}
        unlisted = []
        known_obs = {}
        for key in sorted(viols, key=lambda k: (viols[k]["ord"], k)):
            v = viols[key]
            f = match_finding(pid, v, findings, tier)
            if f is not None:
                known_hit.setdefault(f["key"], (f, 0))
                known_hit[f["key"]] = (f, known_hit[f["key"]][1] + v["n"])
                o = known_obs.setdefault(f["key"], [v["lo"], v["hi"]])
                o[0] = min(o[0], v["lo"]); o[1] = max(o[1], v["hi"])
            else:
                # same class as a listed finding, but outside its recorded range or with more cases
                for kf in findings:
                    if kf.get("status") == "known" and kf.get("property") == pid and kf.get("key") == v["key"]:
                        nmax = kf.get("n")
                        if isinstance(nmax, dict):
                            nmax = nmax.get(tier)
                        v["exceeds_listed"] = "class is a listed finding (%s cases in [%s, %s]) but now has %d cases in [%s, %s]: more than the listed defect fails" % (
                            nmax, kf.get("lo"), kf.get("hi"), v["n"], v["lo"], v["hi"])
                        break
                unlisted.append(v)
        # worker crashes are violations of their own (the slice is replayable)
        for (pname, w, why, cmd) in crashes:
            unlisted.append(dict(key="%s|worker died: %s" % (pname, why), n=1, ord=0, lo=0, hi=0,
                                 case="%s:@worker %s" % (pname, " ".join(cmd[1:])), detail=why,
                                 cmd=" ".join(cmd), part=pname))
        if os.environ.get("VERIF_EMIT_FINDINGS"):
            with open(os.environ["VERIF_EMIT_FINDINGS"], "a") as ef:
                for v in unlisted:
                    ef.write(json.dumps(dict(status="known", property=pid, key=v["key"], lo=v["lo"], hi=v["hi"],
                                             n={tier: v["n"]}, example=v.get("cmd") or v["case"], what=v["detail"])) + "\n")
        rc = 0
        for key, (f, n) in sorted(known_hit.items()):
            print("KNOWN-FINDING: property=%s %s [class %s, %d cases]" % (pid, f.get("what", ""), key, n))
        shutil.rmtree(os.path.join(REPLAY, pid), ignore_errors=True)
        if unlisted:
            os.makedirs(os.path.join(REPLAY, pid), exist_ok=True)
        for v in unlisted:
            fn = os.path.join(REPLAY, pid, safe_name(v["key"]) + ".json")
            rec = dict(property=pid, tier=tier, tree_hash=hsh, **v)
            with open(fn, "w") as f:
                json.dump(rec, f, indent=1)
                f.write("\n")
            print("VIOLATION property=%s replay=%s" % (pid, os.path.relpath(fn, VERIF)))
            print("  class: %s  cases: %d  first: %s" % (v["key"], v["n"], v["detail"]))
            if v.get("exceeds_listed"):
                print("  note: %s" % v["exceeds_listed"])
            if v.get("cmd"):
                print("  cmd: %s" % v["cmd"])
            rc = 1
        wall = time.time() - t0
        skipped = {k[8:]: v for k, v in ctr.items() if k.startswith("skipped:")}
        others = {k: v for k, v in ctr.items()
                  if k not in ("states", "transitions", "evaluations", "traces", "nontrivial") and not k.startswith("skipped:")}
        smp = []
        # first sample of the first worker, a middle one, the last of the last worker
        if samples:
            pick = [samples[0], samples[len(samples) // 2], samples[-1]]
            for s in pick:
                if s[2] not in smp:
                    smp.append(s[2])
        cov = {
            "states": ctr.get("states", 0),
            "transitions": ctr.get("transitions", 0),
            "traces_validated_against_impl": ctr.get("traces", 0),
            "evaluations": ctr.get("evaluations", 0),
            "distinct_nontrivial": ctr.get("nontrivial", 0),
            "distinct_outcomes": outcomes,
            "rule": " || ".join(meta.get("rule", [cfg.get("rule", "")])),
            "bound": " || ".join(meta.get("bound", [])),
            "binding": " || ".join(meta.get("binding", [])),
            "samples": smp,
            "exhaustive": bool(complete and not crashes),
            "skipped": skipped,
            "counters": others,
            "deadline_s": deadline,
            "part_wall_s": part_walls,
        }
        for k, v in meta.items():
            if k not in ("rule", "bound", "binding"):
                cov[k] = " || ".join(v)
        extra = {
            "tree_hash": hsh,
            "repo": build.REPO,
            "known_findings_matched": [dict(key=k, cases=n, lo=known_obs[k][0], hi=known_obs[k][1], what=f.get("what", "")) for k, (f, n) in sorted(known_hit.items())],
            "violation_classes": [dict(key=v["key"], cases=v["n"], first=v["detail"]) for v in unlisted][:200],
        }
        write_evidence(pid, cfg, tier, seed, cov, wall, len(unlisted), extra)
        print("%s %s: states=%d transitions=%d evaluations=%d nontrivial=%d outcomes>=%d exhaustive=%s wall=%.1fs classes: %d unlisted, %d known" % (
            pid, tier, cov["states"], cov["transitions"], cov["evaluations"], cov["distinct_nontrivial"],
            outcomes, cov["exhaustive"], wall, len(unlisted), len(known_hit)))
        if not complete:
            print("NOTE: deadline of %ds reached before the bound was completed; evidence says exhaustive:false" % deadline)
        return rc
    finally:
        if not os.environ.get("VERIF_KEEP_RUNDIR"):
            shutil.rmtree(rundir, ignore_errors=True)


def run_replay(pid, path):
    cfg = CHECKS[pid]
    with open(path) as f:
        rec = json.load(f)
    cas = rec["case"]
    pname, _, cstr = cas.partition(":")
    part = None
    for p in cfg["parts"]:
        if p["name"] == pname:
            part = p
    if part is None:
        return broken("replay file names unknown explorer %r" % pname)
    variant = part.get("variant", "plain")
    try:
        tree, hsh = build.ensure(variant)
        rundir = os.path.join(build.SCRATCH, "run.%d" % os.getpid())
        os.makedirs(rundir, exist_ok=True)
        exe = os.path.join(rundir, part["name"])
        build.compile_explorer(tree, variant, part["src"], exe, part.get("cflags", ()))
    except build.BuildError as e:
        return broken(str(e))
    try:
        outs = []
        for k in range(2):
            if cstr.startswith("@worker "):
                cmd = [exe] + cstr[len("@worker "):].split()
            else:
                cmd = [exe, "--tier", rec.get("tier", "quick"), "--tree", tree, "--case", cstr] + list(part.get("args", ()))
            try:
                r = subprocess.run(cmd, capture_output=True, text=True, errors="replace", cwd=tree,
                                   env=env_for(variant, rundir), timeout=600)
                outs.append((r.returncode, r.stdout))
            except subprocess.TimeoutExpired:
                outs.append((-9, "REPLAY fail timeout after 600s\n"))
        if outs[0] != outs[1]:
            return broken("replay of %s is not deterministic:\n--- run 1 (rc %s)\n%s--- run 2 (rc %s)\n%s" % (
                path, outs[0][0], outs[0][1], outs[1][0], outs[1][1]))
        rc, out = outs[0]
        print("replay of class: %s" % rec.get("key"))
        if rec.get("cmd"):
            print("cmd: %s" % rec["cmd"])
        sys.stdout.write("\n".join(l for l in out.splitlines() if l.startswith("REPLAY") or l.startswith("  ")) + "\n")
        fails = rc != 0 or "REPLAY fail" in out or "REPLAY" not in out
        if fails:
            print("VIOLATION property=%s replay=%s" % (pid, path))
            return 1
        print("replay: the case no longer fails")
        return 0
    finally:
        shutil.rmtree(rundir, ignore_errors=True)


def setup():
    for tool in ("gcc", "make", "rsync"):
        if shutil.which(tool) is None:
            return broken("required tool missing: " + tool)
    os.makedirs(EVIDENCE, exist_ok=True)
    print("setup ok: gcc, make, rsync present; evidence/ exists; builds happen on demand from %s" % build.REPO)
    return 0


def main(argv):
    if not argv or argv[0] in ("-h", "--help"):
        print(__doc__)
        return 0
    if argv[0] == "--setup":
        return setup()
    if argv[0] == "--clean":
        build.clean()
        return 0
    if argv[0] == "--list":
        for k in sorted(CHECKS):
            print(k, CHECKS[k]["level"], ",".join(p["name"] for p in CHECKS[k]["parts"]))
        return 0
    pid = argv[0]
    if pid not in CHECKS:
        return broken("unknown property id %r" % pid)
    tier = os.environ.get("VERIF_TIER") or "quick"
    replay = None
    i = 1
    while i < len(argv):
        if argv[i] == "--tier":
            tier = argv[i + 1]
            i += 2
        elif argv[i] == "--replay":
            replay = argv[i + 1]
            i += 2
        else:
            return broken("unknown argument %r" % argv[i])
    if tier not in ("quick", "thorough"):
        return broken("unknown tier %r" % tier)
    if replay:
        return run_replay(pid, replay)
    return run_check(pid, tier)
