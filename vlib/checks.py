"""Registry of checks: every engine/<ID>.check.json describes one property's explorers.

{
 "id": "C01", "level": "model_checking",
 "parts": [{"name": "c01_conv", "src": "c01_conv.c", "variant": "plain"|"asan",
            "cflags": [...], "args": [...], "workers": 16, "share": 0.5, "tiers": ["quick","thorough"]}],
 "deadline": {"quick": 240, "thorough": 1800},
 "assumptions": [...]
}
"""
import glob
import json
import os

ENGINE = os.path.join(os.path.dirname(os.path.dirname(os.path.abspath(__file__))), "engine")

TRUST = [
    "the reference models in engine/ref*.h are right (self-checked at start-up against a second formulation; a disagreement is exit 3, not a violation)",
    "gcc 12, glibc and (asan variant) libasan behave as documented",
    "the scratch copy built by the repository's own make from /repo's working tree is what the tools are",
]

CHECKS = {}
for fn in sorted(glob.glob(os.path.join(ENGINE, "*.check.json"))):
    with open(fn) as f:
        c = json.load(f)
    c["assumptions"] = TRUST + c.get("assumptions", [])
    CHECKS[c["id"]] = c

# checks still under construction ("ready": false) can be run but are not in MANIFEST.json
READY = {k: v for k, v in CHECKS.items() if v.get("ready", True)}
