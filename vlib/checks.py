"""Registry of checks: property id -> explorers (parts), evidence level, deadlines."""

TRUST = [
    "the reference models in engine/ref*.h (self-checked at start-up against a second formulation; a disagreement is exit 3, not a violation)",
    "gcc 12, glibc and (asan variant) libasan behave as documented",
    "the scratch copy built by the repository's own make from /repo's working tree is what the tools are",
]

CHECKS = {
    "C01": dict(
        level="model_checking",
        parts=[dict(name="c01_conv", src="c01_conv.c", variant="plain")],
        deadline=dict(quick=240, thorough=1800),
        assumptions=TRUST + ["text conventions left open by the statement (zero padding, Sunday as 0 or 7) are compared as parsed values"],
    ),
}
