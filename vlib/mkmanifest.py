#!/usr/bin/env python3
"""Regenerate MANIFEST.json from engine/*.check.json (run after adding a check)."""
import json, os, subprocess, sys
sys.path.insert(0, os.path.dirname(os.path.abspath(__file__)))
from checks import READY as _READY
_rel = json.load(open(os.path.join(os.path.dirname(os.path.dirname(os.path.abspath(__file__))), 'engine', 'released.json')))
# a check is listed only after its result on the unchanged tree has been triaged centrally (engine/released.json)
CHECKS = {k: v for k, v in _READY.items() if k in _rel}
VERIF = os.path.dirname(os.path.dirname(os.path.abspath(__file__)))

props = [json.loads(l) for l in open(os.path.join(VERIF, "properties.jsonl")) if l.strip()]
hook_commits = subprocess.run(["git", "-C", "/repo", "log", "--format=%H %s", "--grep", "^verif hook"],
                              capture_output=True, text=True).stdout.split("\n")
hook_commits = [l.split()[0] for l in hook_commits if l.strip()]
na_reasons = {}
nafile = os.path.join(VERIF, "engine", "not_applicable.json")
if os.path.exists(nafile):
    na_reasons = json.load(open(nafile))

man = {
    "version": 1,
    "setup_cmd": "./check --setup",
    "hooks": {
        "guard": "DATEUTILS_VERIF",
        "enable": "every check copies /repo's working tree to a scratch directory and builds it with the repository's own make and CFLAGS containing -DDATEUTILS_VERIF (vlib/build.py); H1 = print-record observer in dt_strfd/dt_strfdt, H2 = prchunk window constants overridable (-DVERIF_PRCHUNK_NLINES/-DVERIF_PRCHUNK_LLEN/-DVERIF_PRCHUNK_CHUNK)",
        "baseline_off_cmd": "make -C /repo -k check",
        "source_commits": hook_commits,
        "add_only": True,
    },
    "engines": [
        {"name": "explore", "path": "engine/explore.h", "serves_properties": sorted(CHECKS),
         "kind_free_text": "hand-written bounded-exhaustive explorer protocol in C (slices over 16 workers, failure-class aggregation, watchdog for hangs/crashes, outcome bitmap); driver vlib/driver.py"},
        {"name": "refcal", "path": "engine/refcal.h", "serves_properties": sorted(CHECKS),
         "kind_free_text": "reference civil calendar as a successor machine over all 911,280 days, self-checked against a second formulation"},
        {"name": "forksrv", "path": "engine/forksrv.h", "serves_properties": sorted(CHECKS),
         "kind_free_text": "runs a tool's main() in a forked child with scripted read() results, fake clock, chosen environment, output cap and time limit"},
    ],
    "checks": [],
    "notes": "All checks: ./check <ID> --tier quick|thorough; replay: ./check <ID> --replay <file>. Known findings: known-findings.jsonl (read-only at run time). See DESIGN.md.",
    "not_applicable": [],
}
for p in props:
    pid = p["id"]
    c = CHECKS.get(pid)
    if c is None:
        man["not_applicable"].append({"property_id": pid, "reason": na_reasons.get(pid, "explorer not built yet (work in progress); no claim is made for this property")})
        continue
    man["checks"].append({
        "property_id": pid,
        "quick_cmd": "./check %s --tier quick" % pid,
        "thorough_cmd": "./check %s --tier thorough" % pid,
        "evidence_file": "evidence/%s.json" % pid,
        "replay_cmd_template": "./check %s --replay {path}" % pid,
        "engine": "explore",
        "level_claimed": {"category": c["level"], "text": c.get("level_text", ""), "design_ref": c.get("design_ref", "DESIGN.md §6 " + pid)},
        "level_note": c.get("level_note", "trusted: the reference model (self-checked), gcc/glibc/libasan, the scratch build made by the repository's own make"),
        "technique": c.get("technique", "bounded exhaustive enumeration of the implementation against a reference model"),
    })
with open(os.path.join(VERIF, "MANIFEST.json"), "w") as f:
    json.dump(man, f, indent=1)
    f.write("\n")
print("MANIFEST.json: %d checks, %d not_applicable" % (len(man["checks"]), len(man["not_applicable"])))
