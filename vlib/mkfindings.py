#!/usr/bin/env python3
"""Development helper (never run by a check): merge candidate findings emitted with
VERIF_EMIT_FINDINGS (one file per tier) into known-findings lines.

usage: mkfindings.py RULES.json quick.jsonl thorough.jsonl > out.jsonl
RULES.json: list of [property-regex, key-regex, what]; first match wins; classes
that match no rule are printed to stderr and NOT emitted (they need triage)."""
import json, re, sys

rules = json.load(open(sys.argv[1]))
merged = {}
for fn in sys.argv[2:]:
    for ln in open(fn):
        r = json.loads(ln)
        k = (r["property"], r["key"])
        m = merged.get(k)
        if m is None:
            merged[k] = r
        else:
            m["lo"] = min(m["lo"], r["lo"])
            m["hi"] = max(m["hi"], r["hi"])
            for t, n in r["n"].items():
                m["n"][t] = max(m["n"].get(t, 0), n)
un = 0
for (pid, key), r in sorted(merged.items()):
    for pr, kr, what in rules:
        if re.search(pr, pid) and re.search(kr, key):
            out = dict(status="known", property=pid, key=key, lo=r["lo"], hi=r["hi"], n=r["n"],
                       example=r.get("example"), what=what, first=r["what"][:300])
            print(json.dumps(out))
            break
    else:
        un += 1
        sys.stderr.write("UNTRIAGED %s %s n=%s: %s\n" % (pid, key, r["n"], r["what"][:200]))
sys.stderr.write("%d classes merged, %d untriaged\n" % (len(merged), un))
