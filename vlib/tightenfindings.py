#!/usr/bin/env python3
"""Development helper (never run by a check): make every 'known' entry as tight as what the latest runs
actually observed, so that a listed class cannot hide a regression inside slack that an earlier, larger
form of the defect left behind (e.g. a class that failed on all 911,280 days before a repair and fails on
606 days after it).  For each tier whose evidence directory is given, n[tier] becomes the observed number of
cases; lo..hi becomes the union of the observed ranges over the given tiers.  Entries not matched in a given
tier lose that tier's n (the class must not appear there at all).
usage: tightenfindings.py quick=<evidence dir> thorough=<evidence dir>"""
import glob, json, sys
obs = {}
tiers = []
for a in sys.argv[1:]:
    tier, d = a.split('=')
    tiers.append(tier)
    for fn in glob.glob(d + '/C*.json'):
        ev = json.load(open(fn))
        assert ev['tier'] == tier, (fn, ev['tier'])
        for m in ev.get('known_findings_matched', []):
            o = obs.setdefault((ev['property_id'], m['key']), {})
            o[tier] = (m['cases'], m['lo'], m['hi'])
out = []; ch = 0
for l in open('/verif/known-findings.jsonl').read().split('\n'):
    if l.startswith('{'):
        r = json.loads(l)
        if r.get('status') == 'known':
            o = obs.get((r['property'], r['key']))
            if o:
                n = {t: o[t][0] for t in tiers if t in o}
                for t in (r.get('n') or {}):
                    if t not in tiers: n[t] = r['n'][t]
                lo = min(v[1] for v in o.values()); hi = max(v[2] for v in o.values())
                if n != r.get('n') or lo != r.get('lo') or hi != r.get('hi'):
                    ch += 1
                r['n'] = n; r['lo'] = lo; r['hi'] = hi
                l = json.dumps(r)
    out.append(l)
open('/verif/known-findings.jsonl', 'w').write('\n'.join(out))
print('tightened', ch)
