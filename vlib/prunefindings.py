#!/usr/bin/env python3
"""Development helper (never run by a check): drop 'known' entries of the given properties that the
latest run of the given tier (evidence/<P>.json) did not match although the entry records cases for
that tier -- i.e. findings that a fix: commit has removed.  usage: prunefindings.py <tier> C02 C15 ..."""
import json, sys
tier = sys.argv[1]
props = sys.argv[2:]
matched = {}
for p in props:
    ev = json.load(open('/verif/evidence/%s.json' % p))
    assert ev['tier'] == tier, (p, ev['tier'])
    matched[p] = {m['key'] for m in ev.get('known_findings_matched', [])}
out = []
n = 0
for l in open('/verif/known-findings.jsonl').read().split('\n'):
    if l.startswith('{'):
        r = json.loads(l)
        if r.get('status') == 'known' and r['property'] in matched and isinstance(r.get('n'), dict) \
           and tier in r['n'] and r['key'] not in matched[r['property']]:
            n += 1
            sys.stderr.write('stale: %s %s\n' % (r['property'], r['key']))
            continue
    out.append(l)
open('/verif/known-findings.jsonl', 'w').write('\n'.join(out))
sys.stderr.write('%d stale entries removed\n' % n)
