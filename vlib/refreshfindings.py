#!/usr/bin/env python3
"""Development helper (never run by a check): after a triaged change of an explorer's bound, take the
counts/ranges of classes that are ALREADY listed (same key) from an emitted candidates file and raise the
listed n / widen lo..hi for that tier.  Classes not yet listed are written to <out> for rule-based import.
usage: refreshfindings.py <emitted.jsonl> <out-new.jsonl>"""
import json, sys
kf = open('/verif/known-findings.jsonl').read().split('\n')
idx = {}
for i, l in enumerate(kf):
    if l.startswith('{'):
        r = json.loads(l)
        if r['status'] == 'known':
            idx[(r['property'], r['key'])] = i
upd = 0
with open(sys.argv[2], 'w') as new:
    for l in open(sys.argv[1]):
        r = json.loads(l)
        k = (r['property'], r['key'])
        if k in idx:
            e = json.loads(kf[idx[k]])
            for t, n in r['n'].items():
                e['n'][t] = max(e['n'].get(t, 0), n)
            e['lo'] = min(e['lo'], r['lo']); e['hi'] = max(e['hi'], r['hi'])
            kf[idx[k]] = json.dumps(e); upd += 1
        else:
            new.write(l)
open('/verif/known-findings.jsonl', 'w').write('\n'.join(kf))
print('refreshed', upd)
