"""Scratch builds of the repository's current working tree (DESIGN.md §3.1).

A build is keyed by a content hash of the tree, lives outside /repo and /verif
and is recreated on demand; nothing a registered command needs is kept there.
"""
import fcntl
import hashlib
import os
import shutil
import subprocess
import time

REPO = os.environ.get("VERIF_REPO", "/repo")
SCRATCH = os.path.join(os.environ.get("VERIF_SCRATCH", "/var/tmp"), "dateutils-verif")
VERIF = os.path.dirname(os.path.dirname(os.path.abspath(__file__)))

GUARD = "DATEUTILS_VERIF"

VARIANTS = {
    "plain": "-O2 -g -D%s" % GUARD,
    "asan": ("-O1 -g -fno-omit-frame-pointer -fsanitize=address -fsanitize-recover=address "
             "-fsanitize=bounds -fsanitize-undefined-trap-on-error -D%s" % GUARD),
}
LINK_EXTRA = {
    "plain": [],
    "asan": ["-fsanitize=address", "-fsanitize=bounds", "-fsanitize-undefined-trap-on-error"],
}

HARNESS_CPPFLAGS = ["-std=gnu11", "-DHAVE_CONFIG_H", "-D_GNU_SOURCE", "-D_POSIX_C_SOURCE=200112L",
                    "-D_XOPEN_SOURCE=600", "-D_BSD_SOURCE", "-D_DEFAULT_SOURCE", "-D" + GUARD,
                    "-Wno-deprecated", "-w"]

SKIP_DIRS = {".git", "autom4te.cache", ".deps", ".libs"}
SKIP_SUFFIX = (".o", ".a", ".log", ".trs", ".lo", ".la", ".Po", ".info", ".pdf", "~")


class BuildError(Exception):
    pass


def _is_elf(path):
    try:
        with open(path, "rb") as f:
            return f.read(4) == b"\x7fELF"
    except OSError:
        return False


def tree_hash(repo=None):
    """content hash over everything that can influence a build"""
    repo = repo or REPO
    h = hashlib.sha1()
    for sub in ("lib", "src", "data", "build-aux", "m4"):
        top = os.path.join(repo, sub)
        for root, dirs, files in os.walk(top):
            dirs[:] = sorted(d for d in dirs if d not in SKIP_DIRS)
            for fn in sorted(files):
                if fn.endswith(SKIP_SUFFIX):
                    continue
                p = os.path.join(root, fn)
                if os.path.islink(p) or not os.path.isfile(p):
                    continue
                if os.access(p, os.X_OK) and _is_elf(p):
                    continue
                h.update(os.path.relpath(p, repo).encode())
                h.update(b"\0")
                with open(p, "rb") as f:
                    h.update(hashlib.sha1(f.read()).digest())
    for fn in ("configure.ac", "Makefile.am", "version.mk", "GNUmakefile"):
        p = os.path.join(repo, fn)
        if os.path.isfile(p):
            h.update(fn.encode())
            with open(p, "rb") as f:
                h.update(hashlib.sha1(f.read()).digest())
    return h.hexdigest()[:16]


def _gc(keep):
    """keep at most 6 builds; never remove one used within the last hour"""
    try:
        ents = []
        for d in os.listdir(SCRATCH):
            p = os.path.join(SCRATCH, d)
            if d.startswith("run.") or not os.path.isdir(p) or d == keep:
                continue
            try:
                ents.append((os.path.getmtime(os.path.join(p, "stamp")), p))
            except OSError:
                ents.append((0, p))
        ents.sort(reverse=True)
        now = time.time()
        for i, (mt, p) in enumerate(ents):
            if i >= 5 and now - mt > 3600:
                shutil.rmtree(p, ignore_errors=True)
        # stale run dirs (older than a day)
        for d in os.listdir(SCRATCH):
            p = os.path.join(SCRATCH, d)
            if d.startswith("run.") and now - os.path.getmtime(p) > 86400:
                shutil.rmtree(p, ignore_errors=True)
    except OSError:
        pass


def ensure(variant, log=None):
    """return the path of a built copy of the tree for VARIANT"""
    repo = REPO
    hsh = tree_hash(repo)
    top = os.path.join(SCRATCH, hsh)
    os.makedirs(top, exist_ok=True)
    tree = os.path.join(top, variant)
    okf = os.path.join(top, variant + ".ok")
    with open(os.path.join(top, "lock"), "w") as lk:
        fcntl.flock(lk, fcntl.LOCK_EX)
        with open(os.path.join(top, "stamp"), "w") as st:
            st.write(str(time.time()))
        if os.path.exists(okf):
            return tree, hsh
        _gc(hsh)
        shutil.rmtree(tree, ignore_errors=True)
        t0 = time.time()
        cmd = ["rsync", "-a", "--exclude", ".git", "--exclude", "*.o", "--exclude", "*.a",
               "--exclude", "test/*.log", "--exclude", "test/*.trs", "--exclude", "info/",
               repo.rstrip("/") + "/", tree + "/"]
        r = subprocess.run(cmd, capture_output=True, text=True)
        if r.returncode:
            raise BuildError("rsync failed: " + r.stderr)
        cflags = VARIANTS[variant]
        blog = os.path.join(top, variant + ".build.log")
        with open(blog, "w") as bl:
            for sub in ("lib", "src"):
                r = subprocess.run(["make", "-j16", "-C", os.path.join(tree, sub), "CFLAGS=" + cflags],
                                   stdout=bl, stderr=subprocess.STDOUT)
                if r.returncode:
                    tail = open(blog).read()[-3000:]
                    raise BuildError("make -C %s failed (variant %s):\n%s" % (sub, variant, tail))
        with open(okf, "w") as f:
            f.write("%.1f\n" % (time.time() - t0))
        return tree, hsh


def compile_explorer(tree, variant, src, out, extra=()):
    """compile engine/<src> against the scratch tree"""
    cc = os.environ.get("CC", "gcc")
    cmd = [cc] + HARNESS_CPPFLAGS + VARIANTS[variant].split() + \
        ["-I", os.path.join(VERIF, "engine"), "-I", os.path.join(tree, "src"), "-I", os.path.join(tree, "lib"),
         "-DVERIF_TREE=\"%s\"" % tree] + list(extra) + \
        [os.path.join(VERIF, "engine", src), "-o", out,
         os.path.join(tree, "src", "libdutio.a"), os.path.join(tree, "lib", "libdut.a")] + \
        LINK_EXTRA[variant] + ["-lm"]
    r = subprocess.run(cmd, capture_output=True, text=True, cwd=tree)
    if r.returncode:
        raise BuildError("compiling %s failed:\n%s" % (src, r.stderr[-4000:]))
    return out


def clean():
    shutil.rmtree(SCRATCH, ignore_errors=True)
